import SJ.Model.StringWin
import SJ.Proofs.StrLex
/-
The windowed model of the two assembly string routines (`SJ/Model/StringWin.lean`: `validateWin`, `copyWin`) against the
scalar model (`SJ/Model/StringDec.lean`: `decodeString`) and, through `strFacts`, against the RFC 8259 string production.
This is the part of C04 that says "the result does not depend on where the string or any escape in it falls relative to
the 32-byte SIMD chunks or the end of the input".

  * bit level            `maskGo`/`tz`/`dec32` against positions: `firstIdx`, `tzGo_mask`, `dec_and` (`(x-1) & y != 0` for
                         the masks of two different bytes <=> the first `y` byte precedes the first `x` byte),
                         `winCase_cases` / `winCase_quote` / `winCase_advance` / `winCase_esc` (positional reading of the
                         window test), `uDist_spec` (the mask-computed quote distance, second load included, is the scalar
                         model's `quoteDist`; none of the 32-bit subtractions wraps).
  * scalar iteration     `escS` (one scalar iteration at a backslash), `go_quote`/`go_plain`/`go_bs`, runs of plain bytes
                         `go_run_fwd`/`go_run_bwd`, `go_bounds`; `escC_eq` (C's escape block = `escS`), `escV_eq` (V's escape
                         block = lengths of C's).
  * `winGo`              proof device: one loop with the window structure of both routines; `win_of_scalar`,
                         `scalar_of_win` (the two simulations), `validateWinGo_eq`, `copyWinGo_eq` (the routines are
                         projections of it), `winGo_limit` (V's limit test is coarser by <= 31 bytes), `winGo_fuel`.
  * theorems             `validateWin_of_scalar`, `scalar_of_validateWin_tight` (slack 31, exact), `scalar_of_validateWin`
                         (slack 32 as stated), `copyWin_of_scalar`, `scalar_of_copyWin`, `copyWin_of_validateWin`,
                         `validateWin_fuel`, `copyWin_fuel`, `win_decode_exact`, `win_decode_rejects`; examples at the end.

Finding: the only window effect the scalar model does not capture is the limit test (once per window instead of once per
byte): V accepts a closing quote up to 31 bytes beyond `maxStringSize` (example at the end).  Everything else - escapes at
any window offset, the second load at offsets >= 21, surrogate pairs across windows, reads past the end - agrees exactly.

Lean pitfall met here too (cf. `go_succ_aux` in `StrLex.lean`): the kernel unfolds a `match` compiled to a matcher before
anything else and then evaluates its discriminant; with `winCase a pos` or `escC a pos off` as discriminant that never
ends.  Hence the loop bodies take the classified window as an argument and use `Option.bind`, here and in the model.
Axioms: `propext`, `Classical.choice`, `Quot.sound`.
-/
namespace SJ.StringWin
open SJ SJ.StrLex

def firstIdx (a : Bytes) (c : UInt8) : Nat → Nat → Nat
  | 0, _ => 0
  | n + 1, p => if a.getD p 0 == c then 0 else firstIdx a c n (p + 1) + 1

theorem firstIdx_le (a : Bytes) (c : UInt8) : ∀ n p, firstIdx a c n p ≤ n := by
  intro n
  induction n with
  | zero => intro p; simp [firstIdx]
  | succ n ih =>
    intro p
    simp only [firstIdx]
    split
    · omega
    · have := ih (p + 1); omega

theorem firstIdx_before (a : Bytes) (c : UInt8) : ∀ n p j, j < firstIdx a c n p → a.getD (p + j) 0 ≠ c := by
  intro n
  induction n with
  | zero => intro p j hj; simp [firstIdx] at hj
  | succ n ih =>
    intro p j hj
    simp only [firstIdx] at hj
    split at hj
    · omega
    · rename_i hc
      cases j with
      | zero => simpa using hc
      | succ j =>
        have := ih (p + 1) j (by omega)
        rw [show p + (j + 1) = p + 1 + j by omega]
        exact this

theorem firstIdx_at (a : Bytes) (c : UInt8) : ∀ n p, firstIdx a c n p < n → a.getD (p + firstIdx a c n p) 0 = c := by
  intro n
  induction n with
  | zero => intro p h; omega
  | succ n ih =>
    intro p h
    simp only [firstIdx] at h ⊢
    split
    · rename_i hc; simpa using hc
    · rename_i hc
      rw [if_neg hc] at h
      have := ih (p + 1) (by omega)
      rw [show p + (firstIdx a c n (p + 1) + 1) = p + 1 + firstIdx a c n (p + 1) by omega]
      exact this

theorem maskGo_lt (a : Bytes) (c : UInt8) : ∀ n p, maskGo a c n p < 2 ^ n := by
  intro n
  induction n with
  | zero => intro p; simp [maskGo]
  | succ n ih =>
    intro p
    have := ih (p + 1)
    simp only [maskGo, Nat.pow_succ]
    split <;> omega

theorem maskGo_eq_zero (a : Bytes) (c : UInt8) : ∀ n p, maskGo a c n p = 0 ↔ firstIdx a c n p = n := by
  intro n
  induction n with
  | zero => intro p; simp [maskGo, firstIdx]
  | succ n ih =>
    intro p
    have := ih (p + 1)
    simp only [maskGo, firstIdx]
    split <;> omega

theorem tzGo_mask (a : Bytes) (c : UInt8) : ∀ n N p, n ≤ N → maskGo a c n p ≠ 0 →
    tzGo N (maskGo a c n p) = firstIdx a c n p := by
  intro n
  induction n with
  | zero => intro N p _ h; simp [maskGo] at h
  | succ n ih =>
    intro N p hN h
    obtain ⟨M, rfl⟩ : ∃ M, N = M + 1 := ⟨N - 1, by omega⟩
    simp only [maskGo, firstIdx] at h ⊢
    simp only [tzGo]
    by_cases hc : (a.getD p 0 == c) = true
    · simp only [hc, if_true]
      rw [if_pos (by omega)]
    · simp only [hc, if_false, Bool.false_eq_true, Nat.zero_add] at h ⊢
      rw [if_neg (by omega)]
      rw [show 2 * maskGo a c n (p + 1) / 2 = maskGo a c n (p + 1) by omega]
      rw [ih M (p + 1) (by omega) (by omega)]

/-- bitwise `and` one bit at a time -/
theorem and_bit (x0 y0 x y : Nat) (hx : x0 < 2) (hy : y0 < 2) :
    (x0 + 2 * x) &&& (y0 + 2 * y) = (x0 &&& y0) + 2 * (x &&& y) := by
  apply Nat.eq_of_testBit_eq
  intro i
  have h00 : x0 &&& y0 < 2 := by
    have : x0 = 0 ∨ x0 = 1 := by omega
    have : y0 = 0 ∨ y0 = 1 := by omega
    rcases ‹x0 = 0 ∨ x0 = 1› with rfl | rfl <;> rcases ‹y0 = 0 ∨ y0 = 1› with rfl | rfl <;> decide
  cases i with
  | zero =>
    simp only [Nat.testBit_zero]
    have : x0 = 0 ∨ x0 = 1 := by omega
    have : y0 = 0 ∨ y0 = 1 := by omega
    rcases ‹x0 = 0 ∨ x0 = 1› with rfl | rfl <;> rcases ‹y0 = 0 ∨ y0 = 1› with rfl | rfl <;> simp <;> omega
  | succ i =>
    rw [Nat.testBit_and, Nat.testBit_succ, Nat.testBit_succ, Nat.testBit_succ]
    rw [show (x0 + 2 * x) / 2 = x by omega, show (y0 + 2 * y) / 2 = y by omega,
      show ((x0 &&& y0) + 2 * (x &&& y)) / 2 = (x &&& y) by omega, Nat.testBit_and]


/-- `x - 1` on an `n`-bit register -/
def decN (n m : Nat) : Nat := (m + (2 ^ n - 1)) % 2 ^ n

theorem decN_odd (n m : Nat) (h : m < 2 ^ n) : decN (n + 1) (1 + 2 * m) = 0 + 2 * m := by
  unfold decN
  have hp : 0 < 2 ^ n := Nat.two_pow_pos n
  rw [Nat.pow_succ, show 1 + 2 * m + (2 ^ n * 2 - 1) = 2 * m + 2 ^ n * 2 by omega, Nat.add_mod_right,
    Nat.mod_eq_of_lt (by omega)]
  omega

theorem decN_even (n m : Nat) (h : m < 2 ^ n) : decN (n + 1) (0 + 2 * m) = 1 + 2 * decN n m := by
  unfold decN
  have hp : 0 < 2 ^ n := Nat.two_pow_pos n
  rw [Nat.pow_succ]
  by_cases h0 : m = 0
  · subst h0
    rw [Nat.mod_eq_of_lt (by omega), Nat.mod_eq_of_lt (by omega)]
    omega
  · rw [show 0 + 2 * m + (2 ^ n * 2 - 1) = (2 * m - 1) + 2 ^ n * 2 by omega, Nat.add_mod_right,
      Nat.mod_eq_of_lt (by omega), show m + (2 ^ n - 1) = (m - 1) + 2 ^ n by omega, Nat.add_mod_right,
      Nat.mod_eq_of_lt (by omega)]
    omega

theorem mask_disjoint (a : Bytes) (c1 c2 : UInt8) (hne : c1 ≠ c2) : ∀ n p, maskGo a c1 n p &&& maskGo a c2 n p = 0 := by
  intro n
  induction n with
  | zero => intro p; simp [maskGo]
  | succ n ih =>
    intro p
    simp only [maskGo]
    rw [and_bit _ _ _ _ (by split <;> omega) (by split <;> omega), ih (p + 1)]
    by_cases h1 : a.getD p 0 = c1
    · have h2 : ¬ a.getD p 0 = c2 := fun h => hne (h1.symm.trans h)
      have h2' : (a.getD p 0 == c2) = false := by simpa using h2
      simp only [h2', if_false, Bool.false_eq_true, Nat.and_zero]
    · have h1' : (a.getD p 0 == c1) = false := by simpa using h1
      simp only [h1', if_false, Bool.false_eq_true, Nat.zero_and]

/-- `(x - 1) & y != 0` for the masks of two different bytes: the first `c2` precedes the first `c1` -/
theorem dec_and (a : Bytes) (c1 c2 : UInt8) (hne : c1 ≠ c2) : ∀ n p,
    (decN n (maskGo a c1 n p) &&& maskGo a c2 n p ≠ 0 ↔ firstIdx a c2 n p < firstIdx a c1 n p) := by
  intro n
  induction n with
  | zero => intro p; simp [maskGo, firstIdx, decN]
  | succ n ih =>
    intro p
    have hlt := maskGo_lt a c1 n (p + 1)
    have hd := mask_disjoint a c1 c2 hne n (p + 1)
    simp only [maskGo, firstIdx]
    by_cases h1 : a.getD p 0 = c1
    · have h2 : ¬ a.getD p 0 = c2 := fun h => hne (h1.symm.trans h)
      have h1' : (a.getD p 0 == c1) = true := by simpa using h1
      have h2' : (a.getD p 0 == c2) = false := by simpa using h2
      simp only [h1', h2', if_true, if_false, Bool.false_eq_true]
      rw [decN_odd n _ hlt, and_bit _ _ _ _ (by omega) (by omega), hd]
      simp
    · have h1' : (a.getD p 0 == c1) = false := by simpa using h1
      simp only [h1', if_false, Bool.false_eq_true]
      rw [decN_even n _ hlt]
      by_cases h2 : a.getD p 0 = c2
      · have h2' : (a.getD p 0 == c2) = true := by simpa using h2
        simp only [h2', if_true]
        rw [and_bit _ _ _ _ (by omega) (by omega)]
        simp
      · have h2' : (a.getD p 0 == c2) = false := by simpa using h2
        simp only [h2', if_false, Bool.false_eq_true]
        rw [and_bit _ _ _ _ (by omega) (by omega)]
        have := ih (p + 1)
        simp only [Nat.and_zero, Nat.zero_add]
        omega

theorem dec32_eq (m : Nat) : dec32 m = decN 32 m := rfl

/-- the first position of `c` in the window at `pos` (32: none) -/
local macro "fst(" a:term "," p:term "," c:term ")" : term => `(firstIdx $a $c 32 $p)

theorem winMask_ne_zero (a : Bytes) (pos : Nat) (c : UInt8) : winMask a pos c ≠ 0 ↔ fst(a, pos, c) < 32 := by
  have h1 := maskGo_eq_zero a c 32 pos
  have h2 := firstIdx_le a c 32 pos
  unfold winMask
  omega

theorem tz_winMask (a : Bytes) (pos : Nat) (c : UInt8) (h : winMask a pos c ≠ 0) : tz (winMask a pos c) = fst(a, pos, c) :=
  tzGo_mask a c 32 64 pos (by decide) h

theorem winCase_eq (a : Bytes) (pos : Nat) : winCase a pos =
    if dec32 (winMask a pos 92) &&& winMask a pos 34 ≠ 0 then .quote (tz (winMask a pos 34))
    else if dec32 (winMask a pos 34) &&& winMask a pos 92 = 0 then .advance
    else .esc (tz (winMask a pos 92)) := rfl

/-- **Positional reading of the window test.** -/
theorem winCase_cases (a : Bytes) (pos : Nat) :
    (fst(a, pos, 34) < fst(a, pos, 92) ∧ winCase a pos = .quote (fst(a, pos, 34))) ∨
    (fst(a, pos, 34) = 32 ∧ fst(a, pos, 92) = 32 ∧ winCase a pos = .advance) ∨
    (fst(a, pos, 92) < fst(a, pos, 34) ∧ winCase a pos = .esc (fst(a, pos, 92))) := by
  have t1 : dec32 (winMask a pos 92) &&& winMask a pos 34 ≠ 0 ↔ _ := dec_and a 92 34 (by decide) 32 pos
  have t2 : dec32 (winMask a pos 34) &&& winMask a pos 92 ≠ 0 ↔ _ := dec_and a 34 92 (by decide) 32 pos
  have l1 := firstIdx_le a 34 32 pos
  have l2 := firstIdx_le a 92 32 pos
  rw [winCase_eq]
  by_cases h1 : fst(a, pos, 34) < fst(a, pos, 92)
  · left
    refine ⟨h1, ?_⟩
    rw [if_pos (t1.mpr h1), tz_winMask a pos 34 ((winMask_ne_zero a pos 34).mpr (by omega))]
  · right
    rw [if_neg (fun h => h1 (t1.mp h))]
    by_cases h2 : fst(a, pos, 92) < fst(a, pos, 34)
    · right
      refine ⟨h2, ?_⟩
      rw [if_neg (t2.mpr h2), tz_winMask a pos 92 ((winMask_ne_zero a pos 92).mpr (by omega))]
    · left
      have heq : fst(a, pos, 34) = fst(a, pos, 92) := by omega
      have h32 : fst(a, pos, 34) = 32 := by
        apply Classical.byContradiction
        intro hn
        have e1 := firstIdx_at a 34 32 pos (by omega)
        have e2 := firstIdx_at a 92 32 pos (by omega)
        rw [heq] at e1
        rw [e1] at e2
        exact absurd e2 (by decide)
      refine ⟨h32, by omega, ?_⟩
      rw [if_pos (Classical.byContradiction fun h => h2 (t2.mp h))]

/-- `k` bytes from `i` on are neither a quote nor a backslash -/
def Plain (a : Bytes) (i k : Nat) : Prop := ∀ j, j < k → a.getD (i + j) 0 ≠ 34 ∧ a.getD (i + j) 0 ≠ 92

theorem plain_of_fst (a : Bytes) (pos k : Nat) (h1 : k ≤ fst(a, pos, 34)) (h2 : k ≤ fst(a, pos, 92)) : Plain a pos k :=
  fun j hj => ⟨firstIdx_before a 34 32 pos j (by omega), firstIdx_before a 92 32 pos j (by omega)⟩

/-- what the three cases mean -/
theorem winCase_quote {a : Bytes} {pos t : Nat} (h : winCase a pos = .quote t) :
    t < 32 ∧ Plain a pos t ∧ a.getD (pos + t) 0 = 34 := by
  have l2 := firstIdx_le a 92 32 pos
  rcases winCase_cases a pos with ⟨h1, h2⟩ | ⟨_, _, h2⟩ | ⟨_, h2⟩ <;> rw [h2] at h <;> cases h
  exact ⟨by omega, plain_of_fst a pos _ (Nat.le_refl _) (by omega), firstIdx_at a 34 32 pos (by omega)⟩

theorem winCase_advance {a : Bytes} {pos : Nat} (h : winCase a pos = .advance) : Plain a pos 32 := by
  rcases winCase_cases a pos with ⟨h1, h2⟩ | ⟨h0, h1, h2⟩ | ⟨_, h2⟩ <;> rw [h2] at h <;> cases h
  exact plain_of_fst a pos 32 (by omega) (by omega)

theorem winCase_esc {a : Bytes} {pos off : Nat} (h : winCase a pos = .esc off) :
    off < 32 ∧ Plain a pos off ∧ a.getD (pos + off) 0 = 92 ∧ off = fst(a, pos, 92) ∧ off < fst(a, pos, 34) := by
  have l2 := firstIdx_le a 34 32 pos
  rcases winCase_cases a pos with ⟨h1, h2⟩ | ⟨_, _, h2⟩ | ⟨h1, h2⟩ <;> rw [h2] at h <;> cases h
  exact ⟨by omega, plain_of_fst a pos _ (by omega) (Nat.le_refl _), firstIdx_at a 92 32 pos (by omega), rfl, h1⟩

theorem firstIdx_unique (a : Bytes) (c : UInt8) (n p d : Nat) (hd : d ≤ n) (hb : ∀ j, j < d → a.getD (p + j) 0 ≠ c)
    (ha : d < n → a.getD (p + d) 0 = c) : firstIdx a c n p = d := by
  have hle := firstIdx_le a c n p
  apply Classical.byContradiction
  intro hne
  by_cases hlt : firstIdx a c n p < d
  · exact hb _ hlt (firstIdx_at a c n p (by omega))
  · exact firstIdx_before a c n p d (by omega) (ha (by omega))

theorem quoteDist_eq (a : Bytes) (p : Nat) : quoteDist a p = firstIdx a 34 12 p := by
  symm
  unfold quoteDist
  cases hf : (List.range 12).find? (fun d => a.getD (p + d) 0 == 34) with
  | none =>
    rw [List.find?_range_eq_none] at hf
    apply firstIdx_unique _ _ _ _ _ (Nat.le_refl _)
    · intro j hj
      have := hf j hj
      simpa using this
    · intro h; omega
  | some d =>
    rw [List.find?_range_eq_some] at hf
    obtain ⟨h1, h2, h3⟩ := hf
    simp only [Option.getD_some]
    apply firstIdx_unique
    · have := List.mem_range.mp h2; omega
    · intro j hj
      have := h3 j hj
      simpa using this
    · intro _
      simpa using h1

theorem winMask_eq_zero (a : Bytes) (pos : Nat) (c : UInt8) : winMask a pos c = 0 ↔ firstIdx a c 32 pos = 32 :=
  maskGo_eq_zero a c 32 pos

theorem sub32_small (x y : Nat) (hy : y ≤ x) (hx : x < 0x100000000) : sub32 x y = x - y := by
  unfold sub32
  omega

/-- the distance computed from the masks is the scalar model's `quoteDist` (which is capped at 12) -/
theorem uDist_spec {a : Bytes} {pos off : Nat} (h : winCase a pos = .esc off) :
    quoteDist a (pos + off) = min (uDist a pos off) 12 := by
  obtain ⟨h32, _, _, hoff, hq⟩ := winCase_esc h
  have lq := firstIdx_le a 34 32 pos
  rw [quoteDist_eq]
  unfold uDist
  simp only []
  by_cases hz : winMask a pos 34 ≠ 0
  · -- a quote in the window, after the backslash
    rw [if_pos hz, tz_winMask a pos 34 hz, sub32_small _ _ (by omega) (by omega)]
    have hlt := (winMask_ne_zero a pos 34).mp hz
    apply firstIdx_unique
    · omega
    · intro j hj
      have := firstIdx_before a 34 32 pos (off + j) (by omega)
      rw [← Nat.add_assoc] at this; exact this
    · intro hd
      have := firstIdx_at a 34 32 pos hlt
      rw [show min (firstIdx a 34 32 pos - off) 12 = firstIdx a 34 32 pos - off by omega,
        show pos + off + (firstIdx a 34 32 pos - off) = pos + firstIdx a 34 32 pos by omega]
      exact this
  · rw [if_neg hz]
    have h32q : firstIdx a 34 32 pos = 32 := by
      exact (winMask_eq_zero a pos 34).mp (Classical.byContradiction fun h => hz h)
    by_cases h21 : off < 21
    · rw [if_pos h21, sub32_small _ _ (by omega) (by omega)]
      apply firstIdx_unique
      · omega
      · intro j hj
        have := firstIdx_before a 34 32 pos (off + j) (by omega)
        rw [← Nat.add_assoc] at this; exact this
      · intro hd; omega
    · rw [if_neg h21]
      -- the second load, at `pos + off - 20`
      have l2 := firstIdx_le a 34 32 (pos + (off - 20))
      have ht : (if winMask a (pos + (off - 20)) 34 = 0 then 32 else tz (winMask a (pos + (off - 20)) 34))
          = firstIdx a 34 32 (pos + (off - 20)) := by
        by_cases hz2 : winMask a (pos + (off - 20)) 34 = 0
        · rw [if_pos hz2]
          exact ((winMask_eq_zero _ _ _).mp hz2).symm
        · rw [if_neg hz2, tz_winMask _ _ _ hz2]
      rw [ht]
      -- no quote in the part of the second window that the first one covers
      have hge : 52 - off ≤ firstIdx a 34 32 (pos + (off - 20)) := by
        apply Classical.byContradiction
        intro hn
        have e1 := firstIdx_at a 34 32 (pos + (off - 20)) (by omega)
        have e2 := firstIdx_before a 34 32 pos ((off - 20) + firstIdx a 34 32 (pos + (off - 20))) (by omega)
        rw [← Nat.add_assoc] at e2
        exact e2 e1
      rw [sub32_small _ 20 (by omega) (by omega), sub32_small _ off (by omega) (by omega)]
      apply firstIdx_unique
      · omega
      · intro j hj
        have := firstIdx_before a 34 32 (pos + (off - 20)) (20 + j) (by omega)
        rw [show pos + (off - 20) + (20 + j) = pos + off + j by omega] at this
        exact this
      · intro hd
        have := firstIdx_at a 34 32 (pos + (off - 20)) (by omega)
        rw [show pos + (off - 20) + firstIdx a 34 32 (pos + (off - 20))
          = pos + off + min (firstIdx a 34 32 (pos + (off - 20)) + off - 20 - off) 12 by omega] at this
        exact this

theorem uEscape_congr (a : Bytes) (p d1 d2 : Nat) (h : d1 < 12 ↔ d2 < 12) : uEscape a p d1 = uEscape a p d2 := by
  unfold uEscape
  simp only [h]

/-! ## the scalar model, one iteration at a time -/

def escS (a : Bytes) (i : Nat) : Option (List UInt8 × Nat) :=
  let e := a.getD (i + 1) 0
  if e != 117 then
    if escapeMap e == 0 then none else some ([escapeMap e], i + 2)
  else
    if quoteDist a i < 6 then none
    else (uEscape a i (quoteDist a i)).bind fun r => (encodeUTF8 r.1).map fun bs => (bs, i + r.2)

def escK (k : Nat → Bytes → Option (Bytes × Nat)) (out : Bytes) (x : Option (List UInt8 × Nat)) : Option (Bytes × Nat) :=
  x.bind fun r => k r.2 (out ++ r.1.toArray)

theorem uEscape_hi (a : Bytes) (p dist : Nat) (hs : (hex4 a (p + 2) &&& 0xFFFFFC00 == 0xD800) = true) :
    uEscape a p dist = if dist < 12 then none
      else if a.getD (p + 6) 0 != 92 then none
      else if a.getD (p + 7) 0 != 117 then none
      else if (hex4 a (p + 8) ||| hex4 a (p + 2)) > 0xFFFF then none
      else some (c32of (hex4 a (p + 2)) (hex4 a (p + 8)), 12) := by
  unfold uEscape
  simp only [hs, if_true, c32of_eq]

theorem uEscape_lo (a : Bytes) (p dist : Nat) (hs : ¬ (hex4 a (p + 2) &&& 0xFFFFFC00 == 0xD800) = true) :
    uEscape a p dist = some (hex4 a (p + 2), 6) := by
  unfold uEscape
  simp only [hs, if_false, Bool.false_eq_true]

/-- `escK` after a `\u` escape with code point `c` -/
theorem escK_enc (k : Nat → Bytes → Option (Bytes × Nat)) (out : Bytes) (i adv : Nat) (x : Option (List UInt8)) :
    escK k out (x.map fun bs => (bs, i + adv)) = x.bind fun bs => k (i + adv) (out ++ bs.toArray) := by
  cases x <;> rfl

theorem uBody_eq (a : Bytes) (k : Nat → Bytes → Option (Bytes × Nat)) (i : Nat) (out : Bytes)
    (hu : a.getD (i + 1) 0 = 117) : uBody a k i out = escK k out (escS a i) := by
  unfold uBody escS
  simp only [hu, bne_self_eq_false, Bool.false_eq_true, if_false]
  by_cases h6 : quoteDist a i < 6
  · rw [if_pos h6, if_pos h6]; rfl
  · rw [if_neg h6, if_neg h6]
    by_cases hs : (hex4 a (i + 2) &&& 0xFFFFFC00 == 0xD800) = true
    · rw [uEscape_hi a i _ hs, if_pos hs]
      by_cases h12 : quoteDist a i < 12
      · rw [if_pos h12, if_pos h12]; rfl
      · rw [if_neg h12, if_neg h12]
        by_cases hb : (a.getD (i + 6) 0 != 92) = true
        · rw [if_pos (Or.inl hb), if_pos hb]; rfl
        · rw [if_neg hb]
          by_cases hb2 : (a.getD (i + 7) 0 != 117) = true
          · rw [if_pos (Or.inr hb2), if_pos hb2]; rfl
          · rw [if_neg hb2, if_neg (fun h => h.elim hb hb2)]
            by_cases hor : hex4 a (i + 8) ||| hex4 a (i + 2) > 0xFFFF
            · rw [if_pos hor, if_pos hor]; rfl
            · rw [if_neg hor, if_neg hor, Option.bind_some]
              exact (escK_enc k out i 12 _).symm
    · rw [uEscape_lo a i _ hs, if_neg hs, Option.bind_some]
      exact (escK_enc k out i 6 _).symm

section
variable {a : Bytes} {start lim : Nat}

theorem go_quote {i : Nat} (f : Nat) (out : Bytes) (h : a.getD i 0 = 34) :
    decodeStringGo a start lim (f + 1) i out = if i - start ≥ lim then none else some (out, i) := by
  apply go_of_body
  intro h0
  unfold goBody
  simp [h, h0]

theorem go_plain {i : Nat} (f : Nat) (out : Bytes) (h1 : a.getD i 0 ≠ 34) (h2 : a.getD i 0 ≠ 92) :
    decodeStringGo a start lim (f + 1) i out =
      if i - start ≥ lim then none else if i ≥ a.size then none
      else decodeStringGo a start lim f (i + 1) (out.push (a.getD i 0)) := by
  apply go_of_body
  intro h0
  unfold goBody
  have h1' : (a.getD i 0 == 34) = false := by simpa using h1
  have h2' : (a.getD i 0 == 92) = false := by simpa using h2
  simp only [h1', h2', h0, if_false, Bool.false_eq_true]

theorem go_bs {i : Nat} (f : Nat) (out : Bytes) (h : a.getD i 0 = 92) :
    decodeStringGo a start lim (f + 1) i out =
      if i - start ≥ lim then none else escK (decodeStringGo a start lim f) out (escS a i) := by
  apply go_of_body
  intro h0
  unfold goBody
  simp only [h, h0, if_false, show ((92 : UInt8) == 34) = false from by decide, BEq.rfl, if_true, Bool.false_eq_true]
  by_cases hu : a.getD (i + 1) 0 = 117
  · simp only [hu, BEq.rfl, if_true]
    exact uBody_eq a _ i out hu
  · have hu' : (a.getD (i + 1) 0 == 117) = false := by simpa using hu
    have hu'' : (a.getD (i + 1) 0 != 117) = true := by simpa using hu
    unfold escS
    simp only [hu', hu'', if_true, if_false, Bool.false_eq_true]
    by_cases hm : (escapeMap (a.getD (i + 1) 0) == 0) = true
    · rw [if_pos hm, if_pos hm]; rfl
    · rw [if_neg hm, if_neg hm]; rfl
end

/-! ## the escape blocks of the two routines against the scalar iteration -/

theorem escC_eq {a : Bytes} {pos off : Nat} (h : winCase a pos = .esc off) : escC a pos off = escS a (pos + off) := by
  have hd := uDist_spec h
  have hc := uEscape_congr a (pos + off) (uDist a pos off) (quoteDist a (pos + off)) (by omega)
  unfold escC escS
  by_cases he : (a.getD (pos + off + 1) 0 != 117) = true
  · simp only [he, if_true]
  · simp only [he, if_false, Bool.false_eq_true]
    by_cases h6 : uDist a pos off < 6
    · rw [if_pos h6, if_pos (by omega)]
    · rw [if_neg h6, if_neg (by omega), hc]

theorem utf8LenV_eq (cp : UInt32) : utf8LenV cp = (encodeUTF8 cp).map List.length := by
  unfold utf8LenV encodeUTF8
  simp only [UInt32.lt_iff_toNat_lt, UInt32.le_iff_toNat_le, ge_iff_le, gt_iff_lt, UInt32.reduceToNat]
  by_cases h1 : cp.toNat < 128
  · rw [if_neg (by omega), if_pos h1]; rfl
  · rw [if_pos (by omega), if_neg h1]
    by_cases h2 : cp.toNat < 2048
    · rw [if_neg (by omega), if_pos h2]; rfl
    · rw [if_pos (by omega), if_neg h2]
      by_cases h3 : cp.toNat < 65536
      · rw [if_neg (by omega), if_pos h3]; rfl
      · rw [if_pos (by omega), if_neg h3]
        by_cases h4 : cp.toNat ≤ 1114111
        · rw [if_neg (by omega), if_pos h4]; rfl
        · rw [if_pos (by omega), if_neg h4]; rfl

/-- the validate pass computes the length of what the copy pass stores -/
theorem escV_eq (a : Bytes) (pos off : Nat) :
    escV a pos off = (escC a pos off).map fun r => (off + r.1.length, r.2) := by
  unfold escV escC
  by_cases he : (a.getD (pos + off + 1) 0 != 117) = true
  · simp only [he, if_true]
    by_cases hm : (escapeMap (a.getD (pos + off + 1) 0) == 0) = true
    · rw [if_pos hm, if_pos hm]; rfl
    · rw [if_neg hm, if_neg hm]; rfl
  · simp only [he, if_false, Bool.false_eq_true]
    by_cases h6 : uDist a pos off < 6
    · rw [if_pos h6, if_pos h6]; rfl
    · rw [if_neg h6, if_neg h6]
      cases uEscape a (pos + off) (uDist a pos off) with
      | none => rfl
      | some r =>
        simp only [Option.bind_some, utf8LenV_eq]
        cases encodeUTF8 r.1 <;> rfl

theorem uEscape_adv {a : Bytes} {p d : Nat} {r : UInt32 × Nat} (h : uEscape a p d = some r) : r.2 = 6 ∨ r.2 = 12 := by
  by_cases hs : (hex4 a (p + 2) &&& 0xFFFFFC00 == 0xD800) = true
  · rw [uEscape_hi a p d hs] at h
    repeat' (split at h)
    all_goals first | (cases h; right; rfl) | cases h
  · rw [uEscape_lo a p d hs] at h
    cases h; left; rfl

theorem escS_pos {a : Bytes} {i : Nat} {x : List UInt8 × Nat} (h : escS a i = some x) : i + 2 ≤ x.2 := by
  unfold escS at h
  simp only [] at h
  split at h
  · split at h
    · cases h
    · cases h; exact Nat.le_refl _
  · split at h
    · cases h
    · cases hu : uEscape a i (quoteDist a i) with
      | none => rw [hu] at h; cases h
      | some r =>
        rw [hu, Option.bind_some] at h
        have := uEscape_adv hu
        cases he : encodeUTF8 r.1 with
        | none => rw [he] at h; cases h
        | some bs =>
          rw [he] at h
          cases h
          show i + 2 ≤ i + r.2
          omega

/-! ## runs of plain bytes in the scalar model -/

theorem winBytes_zero (a : Bytes) (p : Nat) : winBytes a p 0 = #[] := rfl

theorem winBytes_size (a : Bytes) (p n : Nat) : (winBytes a p n).size = n := by
  simp [winBytes]

theorem winBytes_succ (a : Bytes) (p n : Nat) : winBytes a p (n + 1) = (winBytes a p n).push (a.getD (p + n) 0) := by
  simp only [winBytes, List.range_succ, List.map_append, List.map_cons, List.map_nil]
  simp

/-- the 32-byte store cut at the new end of the output -/
theorem winBytes_extract (a : Bytes) (p t : Nat) (out : Bytes) (ht : t ≤ 32) :
    (out ++ winBytes a p 32).extract 0 (out.size + t) = out ++ winBytes a p t := by
  rw [Array.extract_append]
  have e1 : out.extract 0 (out.size + t) = out := by
    apply Array.ext <;> simp <;> omega
  rw [e1]
  simp [winBytes, ← List.map_take, List.take_range, Nat.min_eq_left ht]

theorem Plain.mono {a : Bytes} {i k k' : Nat} (h : Plain a i k) (hk : k' ≤ k) : Plain a i k' :=
  fun j hj => h j (by omega)

theorem lt_size_of_getD_ne {a : Bytes} {i : Nat} (h : a.getD i 0 ≠ 0) : i < a.size := by
  apply Classical.byContradiction
  intro hn
  apply h
  simp [Array.getD, hn]

section
variable {a : Bytes} {start lim : Nat}

/-- a successful scalar run walks over plain bytes one at a time -/
theorem go_run_fwd : ∀ (k fuel i : Nat) (out : Bytes) (r : Bytes × Nat), Plain a i k →
    decodeStringGo a start lim fuel i out = some r →
    k ≤ fuel ∧ decodeStringGo a start lim (fuel - k) (i + k) (out ++ winBytes a i k) = some r := by
  intro k
  induction k with
  | zero =>
    intro fuel i out r _ h
    refine ⟨Nat.zero_le _, ?_⟩
    rw [winBytes_zero, Array.append_empty]
    exact h
  | succ k ih =>
    intro fuel i out r hp h
    obtain ⟨hk, hrun⟩ := ih fuel i out r (hp.mono (Nat.le_succ k)) h
    obtain ⟨h1, h2⟩ := hp k (Nat.lt_succ_self k)
    obtain ⟨g, hg⟩ : ∃ g, fuel - k = g + 1 := by
      cases hfk : fuel - k with
      | zero => rw [hfk, go_zero] at hrun; cases hrun
      | succ g => exact ⟨g, rfl⟩
    rw [hg, go_plain g _ h1 h2] at hrun
    split at hrun
    · cases hrun
    · split at hrun
      · cases hrun
      · refine ⟨by omega, ?_⟩
        rw [show fuel - (k + 1) = g by omega, winBytes_succ, Array.append_push, ← Nat.add_assoc]
        exact hrun

/-- ... and conversely, plain bytes inside the buffer and below the limit are walked over -/
theorem go_run_bwd : ∀ (k f i : Nat) (out : Bytes), Plain a i k → i + k ≤ a.size → (∀ j, j < k → i + j - start < lim) →
    decodeStringGo a start lim (f + k) i out = decodeStringGo a start lim f (i + k) (out ++ winBytes a i k) := by
  intro k
  induction k with
  | zero =>
    intro f i out _ _ _
    rw [winBytes_zero, Array.append_empty]
    rfl
  | succ k ih =>
    intro f i out hp hs hl
    obtain ⟨h1, h2⟩ := hp k (Nat.lt_succ_self k)
    rw [show f + (k + 1) = (f + 1) + k by omega, ih (f + 1) i out (hp.mono (Nat.le_succ k)) (by omega)
      (fun j hj => hl j (by omega)), go_plain f _ h1 h2, if_neg (by have := hl k (by omega); omega), if_neg (by omega),
      winBytes_succ, Array.append_push, ← Nat.add_assoc]

/-- where a successful scalar run ends -/
theorem go_bounds : ∀ (fuel i : Nat) (out : Bytes) (r : Bytes × Nat), decodeStringGo a start lim fuel i out = some r →
    i ≤ r.2 ∧ r.2 - start < lim := by
  intro fuel
  induction fuel with
  | zero => intro i out r h; rw [go_zero] at h; cases h
  | succ f ih =>
    intro i out r h
    by_cases hq : a.getD i 0 = 34
    · rw [go_quote f out hq] at h
      split at h
      · cases h
      · cases h; exact ⟨Nat.le_refl _, by omega⟩
    · by_cases hb : a.getD i 0 = 92
      · rw [go_bs f out hb] at h
        split at h
        · cases h
        · cases he : escS a i with
          | none => rw [he] at h; cases h
          | some x =>
            rw [he] at h
            have := escS_pos he
            have := ih _ _ _ h
            omega
      · rw [go_plain f out hq hb] at h
        split at h
        · cases h
        · split at h
          · cases h
          · have := ih _ _ _ h
            omega
end

/-! ## the common shape of the two loops

`winGo` is a proof device: one loop with the window structure of both routines, returning the decoded bytes *and* the
position of the closing quote; `ok` is the test at the bottom of the loop (V: LBB0_29 `cmp rsi,r11; jb`, C: none).
`validateWinGo` and `copyWinGo` are projections of it (`validateWinGo_eq`, `copyWinGo_eq`). -/

def winIter (a : Bytes) (ok : Nat → Bool) (loop : Nat → Bytes → Option (Bytes × Nat)) (pos : Nat) (out : Bytes) :
    WinCase → Option (Bytes × Nat)
  | .quote t => some (out ++ winBytes a pos t, pos + t)
  | .advance => if ok (pos + 32) then loop (pos + 32) (out ++ winBytes a pos 32) else none
  | .esc off =>
    (escC a pos off).bind fun x => if ok x.2 then loop x.2 (out ++ winBytes a pos off ++ x.1.toArray) else none

def winGo (a : Bytes) (ok : Nat → Bool) : (fuel : Nat) → Nat → Bytes → Option (Bytes × Nat)
  | 0, _, _ => none
  | fuel + 1, pos, out => winIter a ok (winGo a ok fuel) pos out (winCase a pos)

section
variable {a : Bytes} {ok : Nat → Bool}

theorem winGo_zero (pos : Nat) (out : Bytes) : winGo a ok 0 pos out = none := rfl

theorem winGo_succ (f pos : Nat) (out : Bytes) :
    winGo a ok (f + 1) pos out = winIter a ok (winGo a ok f) pos out (winCase a pos) := rfl

theorem winGo_quote {pos t : Nat} (f : Nat) (out : Bytes) (h : winCase a pos = .quote t) :
    winGo a ok (f + 1) pos out = some (out ++ winBytes a pos t, pos + t) := by
  rw [winGo_succ, h]; rfl

theorem winGo_advance {pos : Nat} (f : Nat) (out : Bytes) (h : winCase a pos = .advance) :
    winGo a ok (f + 1) pos out =
      if ok (pos + 32) then winGo a ok f (pos + 32) (out ++ winBytes a pos 32) else none := by
  rw [winGo_succ, h]; rfl

theorem winIter_esc (loop : Nat → Bytes → Option (Bytes × Nat)) (pos off : Nat) (out : Bytes) :
    winIter a ok loop pos out (.esc off) =
      (escC a pos off).bind fun x => if ok x.2 then loop x.2 (out ++ winBytes a pos off ++ x.1.toArray) else none := rfl

theorem winGo_esc_none {pos off : Nat} (f : Nat) (out : Bytes) (h : winCase a pos = .esc off)
    (he : escC a pos off = none) : winGo a ok (f + 1) pos out = none := by
  rw [winGo_succ, h, winIter_esc, he]; rfl

theorem winGo_esc_some {pos off : Nat} (f : Nat) (out : Bytes) (h : winCase a pos = .esc off)
    {x : List UInt8 × Nat} (he : escC a pos off = some x) :
    winGo a ok (f + 1) pos out =
      if ok x.2 then winGo a ok f x.2 (out ++ winBytes a pos off ++ x.1.toArray) else none := by
  rw [winGo_succ, h, winIter_esc, he]; rfl
end

/-- **scalar ⇒ windowed**: a successful scalar run is reproduced window by window, provided the bottom-of-loop test
    passes at every position up to the closing quote. -/
theorem win_of_scalar (a : Bytes) (start lim : Nat) (ok : Nat → Bool) :
    ∀ (fuel i : Nat) (out : Bytes) (fuelW : Nat) (r : Bytes × Nat),
      decodeStringGo a start lim fuel i out = some r → fuel ≤ fuelW → (∀ p, i < p → p ≤ r.2 → ok p = true) →
      winGo a ok fuelW i out = some r := by
  intro fuel
  induction fuel using Nat.strongRecOn with
  | _ n IH =>
    intro i out fuelW r h hle hok
    have hn : 0 < n := by
      cases n with
      | zero => rw [go_zero] at h; cases h
      | succ m => exact Nat.succ_pos m
    obtain ⟨fW, rfl⟩ : ∃ fW, fuelW = fW + 1 := ⟨fuelW - 1, by omega⟩
    cases hw : winCase a i with
    | quote t =>
      obtain ⟨ht, hpl, hq⟩ := winCase_quote hw
      obtain ⟨hk, hrun⟩ := go_run_fwd t n i out r hpl h
      obtain ⟨g, hg⟩ : ∃ g, n - t = g + 1 := by
        cases hfk : n - t with
        | zero => rw [hfk, go_zero] at hrun; cases hrun
        | succ g => exact ⟨g, rfl⟩
      rw [hg, go_quote g _ hq] at hrun
      split at hrun
      · cases hrun
      · rw [winGo_quote fW out hw]; exact hrun
    | advance =>
      have hpl := winCase_advance hw
      obtain ⟨hk, hrun⟩ := go_run_fwd 32 n i out r hpl h
      have hb := go_bounds _ _ _ _ hrun
      rw [winGo_advance fW out hw, if_pos (hok _ (by omega) hb.1)]
      exact IH (n - 32) (by omega) _ _ fW r hrun (by omega) (fun p hp1 hp2 => hok p (by omega) hp2)
    | esc off =>
      obtain ⟨ho, hpl, hbs, _, _⟩ := winCase_esc hw
      obtain ⟨hk, hrun⟩ := go_run_fwd off n i out r hpl h
      obtain ⟨g, hg⟩ : ∃ g, n - off = g + 1 := by
        cases hfk : n - off with
        | zero => rw [hfk, go_zero] at hrun; cases hrun
        | succ g => exact ⟨g, rfl⟩
      rw [hg, go_bs g _ hbs] at hrun
      split at hrun
      · cases hrun
      · cases he : escS a (i + off) with
        | none => rw [he] at hrun; cases hrun
        | some x =>
          rw [he] at hrun
          have hpos := escS_pos he
          have hrun' : decodeStringGo a start lim g x.2 (out ++ winBytes a i off ++ x.1.toArray) = some r := hrun
          have hb := go_bounds _ _ _ _ hrun'
          rw [winGo_esc_some fW out hw ((escC_eq hw).trans he), if_pos (hok _ (by omega) hb.1)]
          exact IH g (by omega) _ _ fW r hrun' (by omega) (fun p hp1 hp2 => hok p (by omega) hp2)

/-- **windowed ⇒ scalar**: a successful windowed run ends on a quote inside the buffer, and the scalar model, given
    any limit beyond that quote and enough fuel, does the same. -/
theorem scalar_of_win (a : Bytes) (start : Nat) (ok : Nat → Bool) :
    ∀ (fuelW pos : Nat) (out : Bytes) (r : Bytes × Nat), winGo a ok fuelW pos out = some r →
      pos ≤ r.2 ∧ r.2 < a.size ∧
      ∀ lim fuel, r.2 - start < lim → r.2 - pos < fuel → decodeStringGo a start lim fuel pos out = some r := by
  intro fuelW
  induction fuelW with
  | zero => intro pos out r h; rw [winGo_zero] at h; cases h
  | succ fW ih =>
    intro pos out r h
    cases hw : winCase a pos with
    | quote t =>
      obtain ⟨ht, hpl, hq⟩ := winCase_quote hw
      rw [winGo_quote fW out hw] at h
      cases h
      have hsz : pos + t < a.size := lt_size_of_getD_ne (by rw [hq]; decide)
      refine ⟨by simp, hsz, ?_⟩
      intro lim fuel hl hf
      simp only at hl hf
      obtain ⟨g, rfl⟩ : ∃ g, fuel = (g + 1) + t := ⟨fuel - t - 1, by omega⟩
      rw [go_run_bwd t (g + 1) pos out hpl (by omega) (fun j hj => by omega), go_quote g _ hq, if_neg (by omega)]
    | advance =>
      have hpl := winCase_advance hw
      rw [winGo_advance fW out hw] at h
      split at h
      · obtain ⟨h1, h2, h3⟩ := ih _ _ _ h
        refine ⟨by omega, h2, ?_⟩
        intro lim fuel hl hf
        obtain ⟨g, rfl⟩ : ∃ g, fuel = g + 32 := ⟨fuel - 32, by omega⟩
        rw [go_run_bwd 32 g pos out hpl (by omega) (fun j hj => by omega)]
        exact h3 lim g hl (by omega)
      · cases h
    | esc off =>
      obtain ⟨ho, hpl, hbs, _, _⟩ := winCase_esc hw
      cases he : escC a pos off with
      | none => rw [winGo_esc_none fW out hw he] at h; cases h
      | some x =>
        rw [winGo_esc_some fW out hw he] at h
        split at h
        · obtain ⟨h1, h2, h3⟩ := ih _ _ _ h
          have heS : escS a (pos + off) = some x := (escC_eq hw).symm.trans he
          have hpos := escS_pos heS
          have hsz : pos + off < a.size := lt_size_of_getD_ne (by rw [hbs]; decide)
          refine ⟨by omega, h2, ?_⟩
          intro lim fuel hl hf
          obtain ⟨g, rfl⟩ : ∃ g, fuel = (g + 1) + off := ⟨fuel - off - 1, by omega⟩
          rw [go_run_bwd off (g + 1) pos out hpl (by omega) (fun j hj => by omega), go_bs g _ hbs, if_neg (by omega), heS]
          exact h3 lim g hl (by omega)
        · cases h

/-! ## the two routines as projections of `winGo` -/

theorem escC_pos {a : Bytes} {pos off : Nat} {x : List UInt8 × Nat} (hw : winCase a pos = .esc off)
    (h : escC a pos off = some x) : pos + off + 2 ≤ x.2 :=
  escS_pos ((escC_eq hw).symm.trans h)

theorem validateWinGo_succ (a : Bytes) (start lim f pos dlen : Nat) :
    validateWinGo a start lim (f + 1) pos dlen =
      validateIter a start lim (validateWinGo a start lim f) pos dlen (winCase a pos) := rfl

theorem validateIter_esc (a : Bytes) (start lim : Nat) (loop : Nat → Nat → Option (Nat × Nat)) (pos dlen off : Nat) :
    validateIter a start lim loop pos dlen (.esc off) =
      (escV a pos off).bind fun r => if r.2 - start < lim then loop r.2 (dlen + r.1) else none := rfl

/-- V computes the two lengths of what `winGo` (with V's bottom-of-loop test) returns -/
theorem validateWinGo_eq (a : Bytes) (start lim : Nat) : ∀ (f pos : Nat) (out : Bytes), start ≤ pos →
    validateWinGo a start lim f pos out.size =
      (winGo a (fun p => decide (p - start < lim)) f pos out).map fun r => (r.2 - start, r.1.size) := by
  intro f
  induction f with
  | zero => intro pos out _; rfl
  | succ f ih =>
    intro pos out hs
    rw [validateWinGo_succ]
    cases hw : winCase a pos with
    | quote t =>
      rw [winGo_quote f out hw]
      show some (pos - start + t, out.size + t) = some (pos + t - start, (out ++ winBytes a pos t).size)
      rw [Array.size_append, winBytes_size, show pos + t - start = pos - start + t by omega]
    | advance =>
      rw [winGo_advance f out hw]
      show (if pos + 32 - start < lim then validateWinGo a start lim f (pos + 32) (out.size + 32) else none) = _
      by_cases hl : pos + 32 - start < lim
      · rw [if_pos hl, if_pos (by simpa using hl)]
        have := ih (pos + 32) (out ++ winBytes a pos 32) (by omega)
        rw [Array.size_append, winBytes_size] at this
        exact this
      · rw [if_neg hl, if_neg (by simpa using hl)]; rfl
    | esc off =>
      rw [validateIter_esc, escV_eq]
      cases he : escC a pos off with
      | none => rw [winGo_esc_none f out hw he]; rfl
      | some x =>
        rw [winGo_esc_some f out hw he]
        have hp := escC_pos hw he
        show (if x.2 - start < lim then validateWinGo a start lim f x.2 (out.size + (off + x.1.length)) else none) = _
        by_cases hl : x.2 - start < lim
        · rw [if_pos hl, if_pos (by simpa using hl)]
          have := ih x.2 (out ++ winBytes a pos off ++ x.1.toArray) (by omega)
          rw [Array.size_append, Array.size_append, winBytes_size, List.size_toArray, Nat.add_assoc] at this
          exact this
        · rw [if_neg hl, if_neg (by simpa using hl)]; rfl

theorem copyWinGo_succ (a : Bytes) (f pos : Nat) (out : Bytes) :
    copyWinGo a (f + 1) pos out = copyIter a (copyWinGo a f) pos out (winCase a pos) := rfl

theorem copyIter_esc (a : Bytes) (loop : Nat → Bytes → Option Bytes) (pos off : Nat) (out : Bytes) :
    copyIter a loop pos out (.esc off) =
      (escC a pos off).bind fun r => loop r.2 ((storeWin a pos out).extract 0 (out.size + off) ++ r.1.toArray) := rfl

/-- C returns the bytes of what `winGo` (without a bottom-of-loop test) returns -/
theorem copyWinGo_eq (a : Bytes) : ∀ (f pos : Nat) (out : Bytes),
    copyWinGo a f pos out = (winGo a (fun _ => true) f pos out).map fun r => r.1 := by
  intro f
  induction f with
  | zero => intro pos out; rfl
  | succ f ih =>
    intro pos out
    rw [copyWinGo_succ]
    cases hw : winCase a pos with
    | quote t =>
      obtain ⟨ht, _, _⟩ := winCase_quote hw
      rw [winGo_quote f out hw]
      show some ((out ++ winBytes a pos 32).extract 0 (out.size + t)) = some (out ++ winBytes a pos t)
      rw [winBytes_extract a pos t out (by omega)]
    | advance =>
      rw [winGo_advance f out hw, if_pos rfl]
      exact ih (pos + 32) (out ++ winBytes a pos 32)
    | esc off =>
      obtain ⟨ho, _, _, _, _⟩ := winCase_esc hw
      rw [copyIter_esc]
      cases he : escC a pos off with
      | none => rw [winGo_esc_none f out hw he]; rfl
      | some x =>
        rw [winGo_esc_some f out hw he, if_pos rfl]
        show copyWinGo a f x.2 ((out ++ winBytes a pos 32).extract 0 (out.size + off) ++ x.1.toArray) = _
        rw [winBytes_extract a pos off out (by omega)]
        exact ih x.2 _

/-- V's test of the limit is coarser than the scalar model's by at most 31 bytes -/
theorem winGo_limit (a : Bytes) (start lim : Nat) : ∀ (f pos : Nat) (out : Bytes) (r : Bytes × Nat),
    winGo a (fun p => decide (p - start < lim)) f pos out = some r → pos - start < lim → r.2 - start < lim + 31 := by
  intro f
  induction f with
  | zero => intro pos out r h; rw [winGo_zero] at h; cases h
  | succ f ih =>
    intro pos out r h hl
    cases hw : winCase a pos with
    | quote t =>
      obtain ⟨ht, _, _⟩ := winCase_quote hw
      rw [winGo_quote f out hw] at h
      cases h
      show pos + t - start < lim + 31
      omega
    | advance =>
      rw [winGo_advance f out hw] at h
      split at h
      · rename_i hok
        exact ih _ _ _ h (by simpa using hok)
      · cases h
    | esc off =>
      cases he : escC a pos off with
      | none => rw [winGo_esc_none f out hw he] at h; cases h
      | some x =>
        rw [winGo_esc_some f out hw he] at h
        split at h
        · rename_i hok
          exact ih _ _ _ h (by simpa using hok)
        · cases h

/-! ## the fuel is adequate: a run that succeeds with *some* amount of fuel succeeds with `a.size + 64` -/

theorem winGo_fuel (a : Bytes) (ok : Nat → Bool) : ∀ (f pos : Nat) (out : Bytes) (r : Bytes × Nat),
    winGo a ok f pos out = some r → ∀ f', r.2 - pos < f' → winGo a ok f' pos out = some r := by
  intro f
  induction f with
  | zero => intro pos out r h; rw [winGo_zero] at h; cases h
  | succ f ih =>
    intro pos out r h f' hf
    obtain ⟨g, rfl⟩ : ∃ g, f' = g + 1 := ⟨f' - 1, by omega⟩
    cases hw : winCase a pos with
    | quote t => rw [winGo_quote f out hw] at h; rw [winGo_quote g out hw]; exact h
    | advance =>
      rw [winGo_advance f out hw] at h
      rw [winGo_advance g out hw]
      split at h
      · rename_i hok
        rw [if_pos hok]
        have hb := (scalar_of_win a 0 ok _ _ _ _ h).1
        exact ih _ _ _ h g (by omega)
      · cases h
    | esc off =>
      cases he : escC a pos off with
      | none => rw [winGo_esc_none f out hw he] at h; cases h
      | some x =>
        rw [winGo_esc_some f out hw he] at h
        rw [winGo_esc_some g out hw he]
        have hp := escC_pos hw he
        split at h
        · rename_i hok
          rw [if_pos hok]
          have hb := (scalar_of_win a 0 ok _ _ _ _ h).1
          exact ih _ _ _ h g (by omega)
        · cases h

/-- more fuel never makes V succeed where `validateWin` fails -/
theorem validateWin_fuel (a : Bytes) (start lim F : Nat) (x : Nat × Nat) (h0 : lim ≠ 0)
    (h : validateWinGo a start lim F start 0 = some x) : validateWin a start lim = some x := by
  have e := validateWinGo_eq a start lim F start #[] (Nat.le_refl _)
  rw [show (#[] : Bytes).size = 0 from rfl, h] at e
  cases hw : winGo a (fun p => decide (p - start < lim)) F start #[] with
  | none => rw [hw] at e; cases e
  | some r =>
    have hsz := (scalar_of_win a start _ _ _ _ _ hw).2.1
    have := winGo_fuel a _ _ _ _ _ hw (a.size + 64) (by omega)
    unfold validateWin
    rw [if_neg h0]
    have e2 := validateWinGo_eq a start lim (a.size + 64) start #[] (Nat.le_refl _)
    rw [show (#[] : Bytes).size = 0 from rfl] at e2
    rw [e2, this, e, hw]

/-- more fuel never makes C succeed where `copyWin` fails -/
theorem copyWin_fuel (a : Bytes) (start F : Nat) (out : Bytes) (h : copyWinGo a F start #[] = some out) :
    copyWin a start = some out := by
  rw [copyWinGo_eq] at h
  cases hw : winGo a (fun _ => true) F start #[] with
  | none => rw [hw] at h; cases h
  | some r =>
    have hsz := (scalar_of_win a start _ _ _ _ _ hw).2.1
    have := winGo_fuel a _ _ _ _ _ hw (a.size + 64) (by omega)
    unfold copyWin
    rw [copyWinGo_eq, this, ← h, hw]

/-! ## the theorems -/

/-- **scalar ⇒ validate pass.**  Whatever the scalar model decodes within the limit, the windowed validate routine
    reports: `str_length` = distance to the closing quote, `dst_length` = number of decoded bytes. -/
theorem validateWin_of_scalar (a : Bytes) (start lim : Nat) (out : Bytes) (q : Nat)
    (h : decodeString a start lim = some (out, q)) : validateWin a start lim = some (q - start, out.size) := by
  unfold decodeString at h
  have hb := go_bounds _ _ _ _ h
  simp only at hb
  unfold validateWin
  rw [if_neg (by omega)]
  have := validateWinGo_eq a start lim (a.size + 64) start #[] (Nat.le_refl _)
  rw [show (#[] : Bytes).size = 0 from rfl] at this
  rw [this, win_of_scalar a start lim _ _ _ _ (a.size + 64) _ h (Nat.le_refl _)
    (fun p _ hp => by simp only at hp; simp only [decide_eq_true_eq]; omega)]
  rfl

/-- **validate pass ⇒ scalar, exact slack.**  The validate routine tests the limit once per window, on the window's
    start; the closing quote may lie up to 31 bytes further.  So it agrees with the scalar model at limit `lim + 31`
    (`validateWin_slack_tight` below: 31 cannot be lowered). -/
theorem scalar_of_validateWin_tight (a : Bytes) (start lim n m : Nat) (h : validateWin a start lim = some (n, m)) :
    ∃ out, decodeString a start (lim + 31) = some (out, start + n) ∧ out.size = m ∧
      ∀ lim', n < lim' → decodeString a start lim' = some (out, start + n) := by
  unfold validateWin at h
  by_cases h0 : lim = 0
  · rw [if_pos h0] at h; cases h
  rw [if_neg h0] at h
  have := validateWinGo_eq a start lim (a.size + 64) start #[] (Nat.le_refl _)
  rw [show (#[] : Bytes).size = 0 from rfl] at this
  rw [this] at h
  cases hw : winGo a (fun p => decide (p - start < lim)) (a.size + 64) start #[] with
  | none => rw [hw] at h; cases h
  | some r =>
    rw [hw] at h
    simp only [Option.map_some, Option.some.injEq, Prod.mk.injEq] at h
    obtain ⟨hn, hm⟩ := h
    obtain ⟨h1, h2, h3⟩ := scalar_of_win a start _ _ _ _ _ hw
    have hlim := winGo_limit a start lim _ _ _ _ hw (by omega)
    have hr : r = (r.1, start + n) := by
      rw [← hn, show start + (r.2 - start) = r.2 by omega]
    refine ⟨r.1, ?_, hm, ?_⟩
    · unfold decodeString
      rw [h3 (lim + 31) (a.size + 64) hlim (by omega)]
      exact congrArg some hr
    · intro lim' hl
      unfold decodeString
      rw [h3 lim' (a.size + 64) (by omega) (by omega)]
      exact congrArg some hr

/-- **validate pass ⇒ scalar**, as one window of slack. -/
theorem scalar_of_validateWin (a : Bytes) (start lim n m : Nat) (h : validateWin a start lim = some (n, m)) :
    ∃ out, decodeString a start (lim + 32) = some (out, start + n) ∧ out.size = m := by
  obtain ⟨out, h1, h2, h3⟩ := scalar_of_validateWin_tight a start lim n m h
  have hb := go_bounds _ _ _ _ h1
  exact ⟨out, h3 (lim + 32) (by simp only at hb; omega), h2⟩

/-- **scalar ⇒ copy pass.**  Whatever the scalar model decodes (under any limit), the windowed copy routine stores. -/
theorem copyWin_of_scalar (a : Bytes) (start lim : Nat) (out : Bytes) (q : Nat)
    (h : decodeString a start lim = some (out, q)) : copyWin a start = some out := by
  unfold decodeString at h
  unfold copyWin
  rw [copyWinGo_eq, win_of_scalar a start lim _ _ _ _ (a.size + 64) _ h (Nat.le_refl _) (fun _ _ _ => rfl)]
  rfl

/-- **copy pass ⇒ scalar.**  What the copy routine stores is what the scalar model decodes under any limit beyond
    the closing quote. -/
theorem scalar_of_copyWin (a : Bytes) (start : Nat) (out : Bytes) (h : copyWin a start = some out) :
    ∃ q, start ≤ q ∧ q < a.size ∧ ∀ lim, q - start < lim → decodeString a start lim = some (out, q) := by
  unfold copyWin at h
  rw [copyWinGo_eq] at h
  cases hw : winGo a (fun _ => true) (a.size + 64) start #[] with
  | none => rw [hw] at h; cases h
  | some r =>
    rw [hw] at h
    simp only [Option.map_some, Option.some.injEq] at h
    obtain ⟨h1, h2, h3⟩ := scalar_of_win a start _ _ _ _ _ hw
    refine ⟨r.2, h1, h2, ?_⟩
    intro lim hl
    unfold decodeString
    rw [h3 lim (a.size + 64) hl (by omega), ← h]

/-- the two passes agree with each other -/
theorem copyWin_of_validateWin (a : Bytes) (start lim n m : Nat) (h : validateWin a start lim = some (n, m)) :
    ∃ out, copyWin a start = some out ∧ out.size = m := by
  obtain ⟨out, h1, h2⟩ := scalar_of_validateWin a start lim n m h
  exact ⟨out, copyWin_of_scalar a start _ out _ h1, h2⟩

/-! ## against the RFC string production (`strFacts`) -/

open SJ.ParseDefs in
/-- **C04, windowed routines, accepted strings.**  If the specification reads a string body as the bytes `dec`, then for
    every buffer `a` and every `start` - i.e. every alignment of the string and of each of its escapes relative to the
    32-byte windows and to the end of the buffer - with that text at `a[start..]`, and every limit beyond the closing
    quote: the validate routine returns (distance to the closing quote, `dec.length`) and the copy routine stores `dec`. -/
theorem win_decode_exact (fuel : Nat) (s dec rest : List UInt8) (h : Spec.stringBody fuel s [] false = .acc dec rest) :
    ∃ d, closeQ s = some d ∧ rest = s.drop (d + 1) ∧ (∀ j, j < d → ¬ (s.getD j 0 < 0x20)) ∧
      ∀ (a : Bytes) (start lim : Nat), a.toList.drop start = s → d < lim →
        validateWin a start lim = some (d, dec.length) ∧ copyWin a start = some dec.toArray := by
  obtain ⟨d, h1, h2, h3, h4⟩ := strFacts.acc fuel s dec rest h
  refine ⟨d, h1, h2, h3, ?_⟩
  intro a start lim hd hl
  have hs := h4 a start lim hd hl
  refine ⟨?_, copyWin_of_scalar a start lim _ _ hs⟩
  have := validateWin_of_scalar a start lim _ _ hs
  rw [this, show start + d - start = d by omega, List.size_toArray]

open SJ.ParseDefs in
/-- **C04, windowed routines, rejected strings.**  A body the specification rejects is never decoded by either routine:
    there is no closing quote, or a control character precedes it (stage 1 flags it), or both routines return 0 -
    at every alignment and under every limit. -/
theorem win_decode_rejects (fuel : Nat) (s : List UInt8) (hf : s.length < fuel)
    (h : Spec.stringBody fuel s [] false = .rej) :
    closeQ s = none ∨ ∃ d, closeQ s = some d ∧
      ((∃ j, j < d ∧ s.getD j 0 < 0x20) ∨
       ∀ (a : Bytes) (start lim : Nat), a.toList.drop start = s →
         validateWin a start lim = none ∧ copyWin a start = none) := by
  rcases strFacts.rej fuel s hf h with hn | ⟨d, hd, hc | hm⟩
  · exact Or.inl hn
  · exact Or.inr ⟨d, hd, Or.inl hc⟩
  · refine Or.inr ⟨d, hd, Or.inr ?_⟩
    intro a start lim hdr
    constructor
    · cases hv : validateWin a start lim with
      | none => rfl
      | some x =>
        obtain ⟨out, h1, _⟩ := scalar_of_validateWin a start lim x.1 x.2 hv
        rw [hm a start _ hdr] at h1
        cases h1
    · cases hc : copyWin a start with
      | none => rfl
      | some out =>
        obtain ⟨q, _, _, h3⟩ := scalar_of_copyWin a start out hc
        have := h3 (q - start + 1) (by omega)
        rw [hm a start _ hdr] at this
        cases this

/-! ## examples: non-vacuity, escapes at the critical window offsets, the exact slack of the limit -/

/-- `k` bytes `a`, then `mid`, then the closing quote and 40 bytes of padding -/
def exBuf (k : Nat) (mid : List UInt8) : Bytes := (List.replicate k 97 ++ mid ++ [34] ++ List.replicate 40 0).toArray
def aas (k : Nat) : List UInt8 := List.replicate k 97
/-- backslash `u00e9`, then `x` -/
def exE9 : List UInt8 := [92, 117, 48, 48, 101, 57, 120]
/-- backslash `uD83D`, backslash `uDE00`: U+1F600, UTF-8 `F0 9F 98 80` -/
def exPair : List UInt8 := [92, 117, 68, 56, 51, 68, 92, 117, 68, 69, 48, 48]

section
set_option maxRecDepth 100000

-- the backslash of `é` at window offsets 20 (last offset without the second load), 21 (first with it), 26, 31:
-- 20 / 21 plain bytes + 6 source bytes + `x` up to the quote; 2 bytes `C3 A9` in the output
example : validateWin (exBuf 20 exE9) 0 1000 = some (27, 23) ∧
    copyWin (exBuf 20 exE9) 0 = some (aas 20 ++ [0xC3, 0xA9, 120]).toArray := by decide
example : validateWin (exBuf 21 exE9) 0 1000 = some (28, 24) ∧
    copyWin (exBuf 21 exE9) 0 = some (aas 21 ++ [0xC3, 0xA9, 120]).toArray := by decide
-- offset 26: the first window has no quote, the second load (at offset 6) finds it at distance 7
example : winCase (exBuf 26 exE9) 0 = .esc 26 ∧ uDist (exBuf 26 exE9) 0 26 = 7 ∧
    validateWin (exBuf 26 exE9) 0 1000 = some (33, 29) ∧
    copyWin (exBuf 26 exE9) 0 = some (aas 26 ++ [0xC3, 0xA9, 120]).toArray := by decide
-- offset 31: the `u` and the digits are all in the next window
example : winCase (exBuf 31 exE9) 0 = .esc 31 ∧ uDist (exBuf 31 exE9) 0 31 = 7 ∧
    validateWin (exBuf 31 exE9) 0 1000 = some (38, 34) ∧
    copyWin (exBuf 31 exE9) 0 = some (aas 31 ++ [0xC3, 0xA9, 120]).toArray := by decide
-- ... and (checked by evaluation, `#guard`) the same string with its backslash at *every* offset 0..69 of the windows,
-- the string itself beginning at position 0 or 5 or k of the buffer
#guard (List.range 70).all fun k =>
    validateWin (exBuf k exE9) 0 1000 == some (k + 7, k + 3) &&
    copyWin (exBuf k exE9) 0 == some (aas k ++ [0xC3, 0xA9, 120]).toArray &&
    validateWin (exBuf (k + 5) exE9) 5 1000 == some (k + 7, k + 3) &&
    copyWin (exBuf (k + 5) exE9) 5 == some (aas k ++ [0xC3, 0xA9, 120]).toArray &&
    validateWin (exBuf (k + 3) exE9) k 1000 == some (10, 6) &&
    copyWin (exBuf (k + 3) exE9) k == some (aas 3 ++ [0xC3, 0xA9, 120]).toArray

-- a surrogate pair straddling the window boundary: backslash at offset 26, the pair takes bytes 26..37, the closing
-- quote is byte 38 = exactly distance 12 (the minimum the pair path accepts), found by the second load only
example : uDist (exBuf 26 exPair) 0 26 = 12 ∧
    validateWin (exBuf 26 exPair) 0 1000 = some (38, 30) ∧
    copyWin (exBuf 26 exPair) 0 = some (aas 26 ++ [0xF0, 0x9F, 0x98, 0x80]).toArray := by decide
#guard (List.range 70).all fun k =>
    validateWin (exBuf k exPair) 0 1000 == some (k + 12, k + 4) &&
    copyWin (exBuf k exPair) 0 == some (aas k ++ [0xF0, 0x9F, 0x98, 0x80]).toArray &&
    decodeString (exBuf k exPair) 0 1000 == some ((aas k ++ [0xF0, 0x9F, 0x98, 0x80]).toArray, k + 12)
-- a high surrogate whose partner is cut off by the quote: distance 6 < 12, both routines return 0
example : validateWin (exBuf 26 [92, 117, 68, 56, 51, 68]) 0 1000 = none ∧
    copyWin (exBuf 26 [92, 117, 68, 56, 51, 68]) 0 = none := by decide
-- two-character escapes, among them an escaped quote and an escaped backslash at the window boundary
example : validateWin (exBuf 31 [92, 34, 92, 92, 92, 110]) 0 1000 = some (37, 34) ∧
    copyWin (exBuf 31 [92, 34, 92, 92, 92, 110]) 0 = some (aas 31 ++ [34, 92, 10]).toArray := by decide

/-- **The slack 31 is exact.**  Limit 1, 31 plain bytes, closing quote at offset 31: the validate routine tests the limit
    for the window start only and succeeds; the scalar model needs `lim + 31 = 32` and fails with `lim + 30`.
    (Window effect of V not captured by the scalar model at equal limits; harmless for the parser, which passes the
    distance to the next structural index, always beyond the closing quote.) -/
example : validateWin (exBuf 31 []) 0 1 = some (31, 31) ∧
    decodeString (exBuf 31 []) 0 1 = none ∧
    decodeString (exBuf 31 []) 0 (1 + 30) = none ∧
    decodeString (exBuf 31 []) 0 (1 + 31) = some ((aas 31).toArray, 31) := by decide
-- the `lim = 0` exit
example : validateWin (exBuf 3 []) 0 0 = none := by decide
end

end SJ.StringWin
