import SJ.Model.SerReuse
set_option linter.unusedVariables false
/-
C15, Serializer half: the state from which `Serialize`'s tape loop starts does not depend on what the Serializer did
before, and is the state the model's `serialize` starts from.
-/
namespace SJ.SerReuse
open SJ SJ.Generated

/-- the entry code as extracted: every field is zeroed, emptied, overwritten, re-sliced or only handed to `encBlock` -/
theorem entry_resets : serializerEntryResets =
    [("compStrings", ["arg:encBlock"]), ("compTags", ["arg:encBlock"]), ("compValues", ["arg:encBlock"]),
     ("fasterComp", ["arg:encBlock"]), ("sMsg", ["emptied", "arg:encBlock"]), ("stringBuf", ["emptied"]),
     ("stringWr", ["assigned"]), ("stringsTable", ["zeroed"]), ("tagsBuf", ["resized"]), ("tagsCompBuf", ["arg:encBlock"]),
     ("valuesBuf", ["resized", "emptied"]), ("valuesCompBuf", ["arg:encBlock"])] := by decide

/-- every field of the struct is accounted for: treated by the entry code, or `maxBlockSize` (configuration, read by
    Deserialize only) -/
theorem fields_covered :
    fieldsSerializer.all (fun f => (serializerEntryResets.map (·.1)).contains f || f == "maxBlockSize") = true := by decide

/-- the statements in front of the tape loop, pinned -/
theorem entry_source : serializerEntry =
    ["var wg sync.WaitGroup", "for i := range s.stringsTable[:] { s.stringsTable[i] = 0 }",
     "if len(s.stringBuf) > 0 { s.stringBuf = s.stringBuf[:0] }", "if len(s.sMsg) > 0 { s.sMsg = s.sMsg[:0] }",
     "msgWr, msgDone := encBlock(s.compStrings, s.sMsg, s.fasterComp)", "s.stringWr = msgWr", "const tagBufSize = 64 << 10",
     "const valBufSize = 64 << 10", "valWr, valDone := encBlock(s.compValues, s.valuesCompBuf, s.fasterComp)",
     "tagWr, tagDone := encBlock(s.compTags, s.tagsCompBuf, s.fasterComp)",
     "if cap(s.tagsBuf) <= tagBufSize { s.tagsBuf = make([]byte, tagBufSize) }", "s.tagsBuf = s.tagsBuf[:tagBufSize]",
     "if cap(s.valuesBuf) < valBufSize+4 { s.valuesBuf = make([]byte, valBufSize+4) }", "s.valuesBuf = s.valuesBuf[:0]",
     "off := 0", "tagsOff := 0", "var tmp [8]byte", "rawValues := 0", "rawTags := 0"] := by decide

theorem treated_facts : treated "stringsTable" "zeroed" = true ∧ treated "stringBuf" "emptied" = true ∧
    treated "sMsg" "emptied" = true ∧ treated "valuesBuf" "emptied" = true := by decide

/-- **History independence**: whatever two histories left in the Serializer, the tape loop starts from the same state … -/
theorem loopStart_indep (c c' : Carry) : loopStart (enter c) = loopStart (enter c') := by
  obtain ⟨h1, h2, h3, h4⟩ := treated_facts
  simp [loopStart, enter, h1, h2, h4]

/-- … namely the state the model's `serialize` starts its loop from (`{}`): so every theorem about `serialize`
    (`C11_roundtrip`, …) is about a reused Serializer as much as about a fresh one. -/
theorem loopStart_fresh (c : Carry) : loopStart (enter c) = ({} : SerState) := by
  obtain ⟨h1, h2, h3, h4⟩ := treated_facts
  simp [loopStart, enter, h1, h2, h4]

/-- the compressed-message buffer is emptied too, and the mode survives (it is configuration) -/
theorem enter_fields (c : Carry) : (enter c).sMsg = #[] ∧ (enter c).mode = c.mode := by
  obtain ⟨h1, h2, h3, h4⟩ := treated_facts
  simp [enter, h3]

end SJ.SerReuse
