import SJ.Proofs.GoIterBase
import SJ.Model.Access
set_option linter.unusedVariables false
set_option linter.unusedSimpArgs false
/-
GoNum — the hand model of the numeric accessors (`Model/Access.lean`: `Iter.float`, `Iter.floatFlags`, `Iter.int`,
`Iter.uint`, on which the C12 theorems of `Proofs/Numeric.lean` rest) IS the meaning of the syntax trees the translator
printed from `parsed_json.go` (`Generated/GoSrc.lean`: `goIter_Float`, `goIter_FloatFlags`, `goIter_Int`, `goIter_Uint`).

For every `pj`, every iterator `i`, every fuel (0 included: the four functions are loop-free and call nothing), the store
`envOf "i" i` and the tape `pj.tape`, the outcome of `runFun` and the result of the model are related by `SimR`:

  model `.ok a`      ⇔  interpreter returns `enc a ++ [nil]`        (`.bool false` = nil error)
  model `.error _`   ⇔  interpreter returns `zero ++ [non-nil]`     (`zero` = the literal zero values of the Go `return`)
  model `.panic`     ⇔  interpreter panics
  the interpreter is never `stuck` (ill-typed tree), never out of fuel; receiver and tape are unchanged.

`SimR` is a `match` on the model's result; since the three shapes of outcome exclude one another, each line is an
equivalence: `SimR.ok_iff`, `SimR.error_iff`, `SimR.panic_iff`, `SimR.unchanged` (stated once, instantiated at the end).

Hypotheses.  NONE for the simulations — not even `hl : i.lim ≤ pj.tape.size`: for a view longer than the array
(`off < lim`, `tape.size ≤ off`) both sides panic (the interpreter's `tapeAt`, the model's `rd`).  `hl` is what rules the
panic out: `float_ne_panic` … `uint_ne_panic` (the `off ≥ lim` guard of the Go code / of `valWord`, then `off < lim ≤ size`),
hence `*_run_ne_panic` for the interpreter.

Idealisations of the hand model that were checked and AGREE EXACTLY with the source (no difference found):
* `valWord`'s `i.off >= i.lim` on `Nat`  vs  `i.off >= len(i.tape.Tape)` on `int`.
* `Float()`/`FloatFlags()` on an integer: `F64.ofInt (toInt64 v)` = `float64(int64(tape[off]))`; on a uint `F64.ofNat v.toNat`.
* `FloatFlags()`: flags `i.cur` for a float (`FloatFlags(i.cur)` is the identity conversion `uint64 → uint64`), literal 0 else.
* `Int()` on a float: the model compares with `2^63` / `-(2^63)`; the source with the untyped constants `math.MaxInt64`
  (= 2^63-1, which Go converts to the float64 2^63: `constAsFloat_maxInt64`) and `math.MinInt64`; conversion
  `cvtFloatToInt64` on both sides.  (The boundary float 2^63 is rejected by `>=` on both sides — `boundary_int`; likewise
  2^64 for `Uint()` — `boundary_uint`: the D5 repair is in the tree and in the model.)
* `Int()` on a uint: `v.toNat > 2^63 - 1` = the uint64 comparison `v > 9223372036854775807` (`maxInt64_lt`), and the
  model's `(v.toNat : Int)` = `int64(v)` (`toInt64`) below 2^63.
* `Uint()` on a float: `2^64` / `0`  vs  `math.MaxUint64` (→ 2^64: `constAsFloat_maxUint64`) / `0`; `cvtFloatToUint64`,
  which is `< 2^64` (`cvtFloatToUint64_lt`), so `UInt64.ofNat` loses nothing.
* `Uint()` on an integer: `toInt64 v < 0`, and the model's `v.toNat` = `uint64(int64(v))` (`ofInt_toInt64`).
* the literal results on the error paths (`0`, `0, 0`) and the order of the tests.
An edit of one of the four Go functions changes a generated definition and breaks the corresponding proof.
-/
namespace SJ.GoNum
open SJ SJ.GoSem SJ.Generated SJ.GoIter

/-! ## the untyped constants as float64 (kernel evaluation of `F64.ofInt` / `F64.trunc?`; no `native_decide`) -/

/-- `float64(math.MaxInt64)` is 2^63 -/
theorem constAsFloat_maxInt64 : constAsFloat 9223372036854775807 = 2^63 := by decide +kernel
/-- `float64(math.MinInt64)` is -2^63 -/
theorem constAsFloat_minInt64 : constAsFloat (-9223372036854775808) = -(2^63) := by decide +kernel
/-- `float64(math.MaxUint64)` is 2^64 -/
theorem constAsFloat_maxUint64 : constAsFloat 18446744073709551615 = 2^64 := by decide +kernel
theorem constAsFloat_zero : constAsFloat 0 = 0 := by decide +kernel

/-- the boundary values: the float 2^63 is `>= float64(math.MaxInt64)`, the float 2^64 is `>= float64(math.MaxUint64)` -/
theorem boundary_int : fcmp .ge (F64.ofNat (2^63)) (constAsFloat 9223372036854775807) = some true := by decide +kernel
theorem boundary_uint : fcmp .ge (F64.ofNat (2^64)) (constAsFloat 18446744073709551615) = some true := by decide +kernel

/-! ## conversions -/

/-- `uint64(int64(v)) = v` -/
theorem ofInt_toInt64 (v : UInt64) : UInt64.ofInt (toInt64 v) = v := by
  apply UInt64.toNat_inj.mp
  have := v.toNat_lt
  simp only [UInt64.ofInt, toInt64, UInt64.toNat_ofNat']
  split <;> omega

/-- the uint64 comparison `v > math.MaxInt64` is the model's comparison of naturals -/
theorem maxInt64_lt (v : UInt64) : (9223372036854775807 < v) = (v.toNat > 2^63 - 1) := by
  simp [UInt64.lt_iff_toNat_lt]

/-- `uint64(f)` fits a uint64 -/
theorem cvtFloatToUint64_lt (b : UInt64) : Iter.cvtFloatToUint64 b < 2^64 := by
  unfold Iter.cvtFloatToUint64
  split
  · exact UInt64.toNat_lt _
  · split
    · split <;> omega
    · omega

/-! ## the relation -/

/-- functions returning values and an error without touching receiver or tape.  `enc a`: the returned values for the
    model's result `a`; `zero`: the values returned beside a non-nil error. -/
def SimR {α : Type} (tape : Array UInt64) (i : Iter) (enc : α → List Val) (zero : List Val) (o : Out) (r : Res α) : Prop :=
  match r with
  | .ok a => ∃ s, o = .ret s (enc a ++ [.bool false]) ∧ s.tape = tape ∧ iterAt s.env "i" = some i
  | .error _ => ∃ s, o = .ret s (zero ++ [.bool true]) ∧ s.tape = tape ∧ iterAt s.env "i" = some i
  | .panic => o = .panic
  | .diverge => False

section Iff
variable {α : Type} {tape : Array UInt64} {i : Iter} {enc : α → List Val} {zero : List Val} {o : Out} {r : Res α}

private theorem last_ne {l₁ l₂ : List Val} : l₁ ++ [Val.bool false] ≠ l₂ ++ [Val.bool true] := by
  intro h
  have := List.append_inj_right' h rfl
  simp at this

/-- model `.ok a` ⇔ the interpreter returns `enc a` and a nil error (`enc` injective on the results that occur) -/
theorem SimR.ok_iff (h : SimR tape i enc zero o r) (a : α) (hinj : ∀ b, r = .ok b → enc b = enc a → b = a) :
    r = .ok a ↔ ∃ s, o = .ret s (enc a ++ [.bool false]) := by
  constructor
  · intro hr; subst hr; obtain ⟨s, hs, _⟩ := h; exact ⟨s, hs⟩
  · rintro ⟨s, hs⟩
    cases r with
    | ok b =>
      obtain ⟨s', hs', _⟩ := h
      rw [hs'] at hs
      injection hs with _ hv
      rw [hinj b rfl (List.append_inj_left' hv rfl)]
    | error e =>
      obtain ⟨s', hs', _⟩ := h
      rw [hs'] at hs
      injection hs with _ hv
      exact absurd hv.symm last_ne
    | panic => simp [SimR] at h; rw [h] at hs; cases hs
    | diverge => exact h.elim

/-- model `.error _` ⇔ the interpreter returns a non-nil error (beside the literal zero values) -/
theorem SimR.error_iff (h : SimR tape i enc zero o r) :
    (∃ e, r = .error e) ↔ ∃ s vs, o = .ret s (vs ++ [.bool true]) := by
  constructor
  · rintro ⟨e, hr⟩; subst hr; obtain ⟨s, hs, _⟩ := h; exact ⟨s, zero, hs⟩
  · rintro ⟨s, vs, hs⟩
    cases r with
    | ok b =>
      obtain ⟨s', hs', _⟩ := h
      rw [hs'] at hs
      injection hs with _ hv
      exact absurd hv last_ne
    | error e => exact ⟨e, rfl⟩
    | panic => simp [SimR] at h; rw [h] at hs; cases hs
    | diverge => exact h.elim

/-- the values beside a non-nil error are the literal zeros -/
theorem SimR.error_vals (h : SimR tape i enc zero o r) (e : Err) (hr : r = .error e) :
    ∃ s, o = .ret s (zero ++ [.bool true]) := by
  subst hr; obtain ⟨s, hs, _⟩ := h; exact ⟨s, hs⟩

/-- model `.panic` ⇔ the interpreter panics -/
theorem SimR.panic_iff (h : SimR tape i enc zero o r) : r = .panic ↔ o = .panic := by
  constructor
  · intro hr; subst hr; exact h
  · intro ho
    cases r with
    | ok b => obtain ⟨s', hs', _⟩ := h; rw [hs'] at ho; cases ho
    | error e => obtain ⟨s', hs', _⟩ := h; rw [hs'] at ho; cases ho
    | panic => rfl
    | diverge => exact h.elim

/-- whenever the interpreter returns, the receiver and the tape are what they were -/
theorem SimR.unchanged (h : SimR tape i enc zero o r) (s : St) (vs : List Val) (ho : o = .ret s vs) :
    s.tape = tape ∧ iterAt s.env "i" = some i := by
  cases r with
  | ok b => obtain ⟨s', hs', h1, h2⟩ := h; rw [hs'] at ho; injection ho with h3 _; subst h3; exact ⟨h1, h2⟩
  | error e => obtain ⟨s', hs', h1, h2⟩ := h; rw [hs'] at ho; injection ho with h3 _; subst h3; exact ⟨h1, h2⟩
  | panic => simp [SimR] at h; rw [h] at ho; cases ho
  | diverge => exact h.elim

/-- the interpreter returns or panics: never stuck, never out of fuel, never falls off the end -/
theorem SimR.ret_or_panic (h : SimR tape i enc zero o r) : (∃ s vs, o = .ret s vs) ∨ o = .panic := by
  cases r with
  | ok b => obtain ⟨s', hs', _⟩ := h; exact .inl ⟨s', _, hs'⟩
  | error e => obtain ⟨s', hs', _⟩ := h; exact .inl ⟨s', _, hs'⟩
  | panic => exact .inr h
  | diverge => exact h.elim
end Iff

-- simp set for symbolic execution of a concrete syntax tree (as in `GoIterBase`)
attribute [local simp] exec exec1 execCases evalE evalEs Env.get Env.set isOneOf binop convert ofE copyFields bindParams
  iterFields runFun tblLookup

/-! ## the four functions -/

/-- `Float()` -/
theorem float_sim (pj : PJ) (i : Iter) (fuel : Nat) :
    SimR pj.tape i (fun b => [.u64 b]) [.u64 0]
      (runFun goFuns goIter_Float fuel { env := envOf "i" i, tape := pj.tape }) (i.float pj) := by
  simp only [goIter_Float, envOf, Iter.float, Iter.valWord, Iter.rdT, rd, SimR, tagFloat, tagInteger, tagUint]
  simp
  simp only [← UInt8.toNat_inj, UInt8.reduceToNat, @eq_comm Nat _ i.t.toNat]
  by_cases hb : i.lim ≤ i.off
  · by_cases h1 : i.t.toNat = 100
    · simp [h1, hb, iterAt]
    · by_cases h2 : i.t.toNat = 108
      · simp [h1, h2, hb, iterAt, Res.bind, bind]
      · by_cases h3 : i.t.toNat = 117
        · simp [h1, h2, h3, hb, iterAt, Res.bind, bind]
        · simp [h1, h2, h3, iterAt]
  · have h5 : (i.off : Int) < i.lim := by omega
    by_cases h4 : i.off < pj.tape.size
    · by_cases h1 : i.t.toNat = 100
      · simp [h1, hb, h4, h5, iterAt]
      · by_cases h2 : i.t.toNat = 108
        · simp [h1, h2, hb, h4, h5, iterAt, Res.bind, bind]
        · by_cases h3 : i.t.toNat = 117
          · simp [h1, h2, h3, hb, h4, h5, iterAt, Res.bind, bind]
          · simp [h1, h2, h3, iterAt]
    · have hn : pj.tape[i.off]? = none := by simp; omega
      by_cases h1 : i.t.toNat = 100
      · simp [h1, hb, hn, h5]
      · by_cases h2 : i.t.toNat = 108
        · simp [h1, h2, hb, hn, h5, Res.bind, bind]
        · by_cases h3 : i.t.toNat = 117
          · simp [h1, h2, h3, hb, hn, h5, Res.bind, bind]
          · simp [h1, h2, h3, iterAt]

/-- `FloatFlags()` -/
theorem floatFlags_sim (pj : PJ) (i : Iter) (fuel : Nat) :
    SimR pj.tape i (fun p => [.u64 p.1, .u64 p.2]) [.u64 0, .u64 0]
      (runFun goFuns goIter_FloatFlags fuel { env := envOf "i" i, tape := pj.tape }) (i.floatFlags pj) := by
  simp only [goIter_FloatFlags, envOf, Iter.floatFlags, Iter.float, Iter.valWord, Iter.rdT, rd, SimR, tagFloat,
    tagInteger, tagUint]
  simp
  simp only [← UInt8.toNat_inj, UInt8.reduceToNat, @eq_comm Nat _ i.t.toNat]
  by_cases hb : i.lim ≤ i.off
  · by_cases h1 : i.t.toNat = 100
    · simp [h1, hb, iterAt, Res.bind, bind]
    · by_cases h2 : i.t.toNat = 108
      · simp [h1, h2, hb, iterAt, Res.bind, bind]
      · by_cases h3 : i.t.toNat = 117
        · simp [h1, h2, h3, hb, iterAt, Res.bind, bind]
        · simp [h1, h2, h3, iterAt, Res.bind, bind]
  · have h5 : (i.off : Int) < i.lim := by omega
    by_cases h4 : i.off < pj.tape.size
    · by_cases h1 : i.t.toNat = 100
      · simp [h1, hb, h4, h5, iterAt, Res.bind, bind]
      · by_cases h2 : i.t.toNat = 108
        · simp [h1, h2, hb, h4, h5, iterAt, Res.bind, bind]
        · by_cases h3 : i.t.toNat = 117
          · simp [h1, h2, h3, hb, h4, h5, iterAt, Res.bind, bind]
          · simp [h1, h2, h3, iterAt, Res.bind, bind]
    · have hn : pj.tape[i.off]? = none := by simp; omega
      by_cases h1 : i.t.toNat = 100
      · simp [h1, hb, hn, h5, Res.bind, bind]
      · by_cases h2 : i.t.toNat = 108
        · simp [h1, h2, hb, hn, h5, Res.bind, bind]
        · by_cases h3 : i.t.toNat = 117
          · simp [h1, h2, h3, hb, hn, h5, Res.bind, bind]
          · simp [h1, h2, h3, iterAt, Res.bind, bind]

/-- `Int()` -/
theorem int_sim (pj : PJ) (i : Iter) (fuel : Nat) :
    SimR pj.tape i (fun z => [.int z]) [.int 0]
      (runFun goFuns goIter_Int fuel { env := envOf "i" i, tape := pj.tape }) (i.int pj) := by
  simp only [goIter_Int, envOf, Iter.int, Iter.valWord, Iter.rdT, rd, SimR, tagFloat, tagInteger, tagUint]
  simp [fcmp, constAsFloat_maxInt64, constAsFloat_minInt64]
  simp only [← UInt8.toNat_inj, UInt8.reduceToNat, @eq_comm Nat _ i.t.toNat]
  by_cases hb : i.lim ≤ i.off
  · by_cases h1 : i.t.toNat = 100
    · simp [h1, hb, iterAt, Res.bind, bind]
    · by_cases h2 : i.t.toNat = 108
      · simp [h1, h2, hb, iterAt, Res.bind, bind]
      · by_cases h3 : i.t.toNat = 117
        · simp [h1, h2, h3, hb, iterAt, Res.bind, bind]
        · simp [h1, h2, h3, iterAt]
  · have h5 : (i.off : Int) < i.lim := by omega
    by_cases h4 : i.off < pj.tape.size
    · by_cases h1 : i.t.toNat = 100
      · -- the two float comparisons, against 2^63 and -2^63 on both sides
        by_cases hg : F64.geInt pj.tape[i.off] 9223372036854775808 = true
        · simp [h1, hb, h4, h5, iterAt, Res.bind, bind, hg]
        · by_cases hlt : F64.ltInt pj.tape[i.off] (-9223372036854775808) = true
          · simp [h1, hb, h4, h5, iterAt, Res.bind, bind, hg, hlt]
          · simp [h1, hb, h4, h5, iterAt, Res.bind, bind, hg, hlt]
      · by_cases h2 : i.t.toNat = 108
        · simp [h1, h2, hb, h4, h5, iterAt, Res.bind, bind]
        · by_cases h3 : i.t.toNat = 117
          · simp [h1, h2, h3, hb, h4, h5, iterAt, Res.bind, bind, maxInt64_lt]
            generalize pj.tape[i.off] = w
            by_cases hw : 9223372036854775807 < w.toNat
            · simp [hw]
            · simp [hw, toInt64_small w (by omega)]
          · simp [h1, h2, h3, iterAt]
    · have hn : pj.tape[i.off]? = none := by simp; omega
      by_cases h1 : i.t.toNat = 100
      · simp [h1, hb, hn, h5, Res.bind, bind]
      · by_cases h2 : i.t.toNat = 108
        · simp [h1, h2, hb, hn, h5, Res.bind, bind]
        · by_cases h3 : i.t.toNat = 117
          · simp [h1, h2, h3, hb, hn, h5, Res.bind, bind]
          · simp [h1, h2, h3, iterAt]

/-- `Uint()`; the model's natural number is returned as the uint64 it fits in (`uint_lt`) -/
theorem uint_sim (pj : PJ) (i : Iter) (fuel : Nat) :
    SimR pj.tape i (fun n => [.u64 (UInt64.ofNat n)]) [.u64 0]
      (runFun goFuns goIter_Uint fuel { env := envOf "i" i, tape := pj.tape }) (i.uint pj) := by
  simp only [goIter_Uint, envOf, Iter.uint, Iter.valWord, Iter.rdT, rd, SimR, tagFloat, tagInteger, tagUint]
  simp [fcmp, constAsFloat_maxUint64, constAsFloat_zero]
  simp only [← UInt8.toNat_inj, UInt8.reduceToNat, @eq_comm Nat _ i.t.toNat]
  by_cases hb : i.lim ≤ i.off
  · by_cases h1 : i.t.toNat = 100
    · simp [h1, hb, iterAt, Res.bind, bind]
    · by_cases h2 : i.t.toNat = 108
      · simp [h1, h2, hb, iterAt, Res.bind, bind]
      · by_cases h3 : i.t.toNat = 117
        · simp [h1, h2, h3, hb, iterAt, Res.bind, bind]
        · simp [h1, h2, h3, iterAt]
  · have h5 : (i.off : Int) < i.lim := by omega
    by_cases h4 : i.off < pj.tape.size
    · by_cases h1 : i.t.toNat = 100
      · -- the two float comparisons, against 2^64 and 0 on both sides
        by_cases hg : F64.geInt pj.tape[i.off] 18446744073709551616 = true
        · simp [h1, hb, h4, h5, iterAt, Res.bind, bind, hg]
        · by_cases hlt : F64.ltInt pj.tape[i.off] 0 = true
          · simp [h1, hb, h4, h5, iterAt, Res.bind, bind, hg, hlt]
          · simp [h1, hb, h4, h5, iterAt, Res.bind, bind, hg, hlt]
      · by_cases h2 : i.t.toNat = 108
        · by_cases hneg : toInt64 pj.tape[i.off] < 0
          · simp [h1, h2, hb, h4, h5, iterAt, Res.bind, bind, hneg]
          · simp [h1, h2, hb, h4, h5, iterAt, Res.bind, bind, hneg, ofInt_toInt64]
        · by_cases h3 : i.t.toNat = 117
          · simp [h1, h2, h3, hb, h4, h5, iterAt, Res.bind, bind]
          · simp [h1, h2, h3, iterAt]
    · have hn : pj.tape[i.off]? = none := by simp; omega
      by_cases h1 : i.t.toNat = 100
      · simp [h1, hb, hn, h5, Res.bind, bind]
      · by_cases h2 : i.t.toNat = 108
        · simp [h1, h2, hb, hn, h5, Res.bind, bind]
        · by_cases h3 : i.t.toNat = 117
          · simp [h1, h2, h3, hb, hn, h5, Res.bind, bind]
          · simp [h1, h2, h3, iterAt]

/-! ## no panic on a view of the tape -/

theorem valWord_ne_panic (pj : PJ) (i : Iter) (hl : i.lim ≤ pj.tape.size) : Iter.valWord pj i ≠ .panic := by
  simp only [Iter.valWord, Iter.rdT, rd]
  by_cases hb : i.off ≥ i.lim
  · simp [hb]
  · have h4 : i.off < pj.tape.size := by omega
    simp [hb, h4]

/-- `valWord` is an error or the word at `off` -/
theorem valWord_cases (pj : PJ) (i : Iter) (hl : i.lim ≤ pj.tape.size) :
    Iter.valWord pj i = .error .generic ∨ ∃ w, Iter.valWord pj i = .ok w := by
  simp only [Iter.valWord, Iter.rdT, rd]
  by_cases hb : i.off ≥ i.lim
  · simp [hb]
  · have h4 : i.off < pj.tape.size := by omega
    simp [hb, h4]

theorem float_ne_panic (pj : PJ) (i : Iter) (hl : i.lim ≤ pj.tape.size) : i.float pj ≠ .panic := by
  unfold Iter.float
  rcases valWord_cases pj i hl with h | ⟨w, h⟩ <;>
    by_cases h1 : (i.t == tagFloat) = true <;> by_cases h2 : (i.t == tagInteger) = true <;>
    by_cases h3 : (i.t == tagUint) = true <;> simp [h, h1, h2, h3, bind, Res.bind] <;> (repeat' split) <;> simp

theorem floatFlags_ne_panic (pj : PJ) (i : Iter) (hl : i.lim ≤ pj.tape.size) : i.floatFlags pj ≠ .panic := by
  unfold Iter.floatFlags Iter.float
  rcases valWord_cases pj i hl with h | ⟨w, h⟩ <;>
    by_cases h1 : (i.t == tagFloat) = true <;> by_cases h2 : (i.t == tagInteger) = true <;>
    by_cases h3 : (i.t == tagUint) = true <;> simp [h, h1, h2, h3, bind, Res.bind] <;> (repeat' split) <;> simp

theorem int_ne_panic (pj : PJ) (i : Iter) (hl : i.lim ≤ pj.tape.size) : i.int pj ≠ .panic := by
  unfold Iter.int
  rcases valWord_cases pj i hl with h | ⟨w, h⟩ <;>
    by_cases h1 : (i.t == tagFloat) = true <;> by_cases h2 : (i.t == tagInteger) = true <;>
    by_cases h3 : (i.t == tagUint) = true <;> simp [h, h1, h2, h3, bind, Res.bind] <;> (repeat' split) <;> simp

theorem uint_ne_panic (pj : PJ) (i : Iter) (hl : i.lim ≤ pj.tape.size) : i.uint pj ≠ .panic := by
  unfold Iter.uint
  rcases valWord_cases pj i hl with h | ⟨w, h⟩ <;>
    by_cases h1 : (i.t == tagFloat) = true <;> by_cases h2 : (i.t == tagInteger) = true <;>
    by_cases h3 : (i.t == tagUint) = true <;> simp [h, h1, h2, h3, bind, Res.bind] <;> (repeat' split) <;> simp

/-- the result of `Uint()` fits a uint64, so `UInt64.ofNat` in `uint_sim` loses nothing -/
theorem uint_lt (pj : PJ) (i : Iter) (n : Nat) (h : i.uint pj = .ok n) : n < 2^64 := by
  unfold Iter.uint at h
  simp only [Iter.valWord, Iter.rdT, rd, bind, Res.bind] at h
  repeat' split at h
  all_goals first
    | (injection h with h; subst h; first | exact cvtFloatToUint64_lt _ | exact UInt64.toNat_lt _)
    | cases h

/-! ## the equivalences, function by function -/

section Ties
variable (pj : PJ) (i : Iter) (fuel : Nat)

/-- the interpreter's outcome on the receiver `i` and the tape of `pj` -/
abbrev run (fd : FunDef) : Out := runFun goFuns fd fuel { env := envOf "i" i, tape := pj.tape }

theorem float_ok_iff (bits : UInt64) :
    i.float pj = .ok bits ↔ ∃ s, run pj i fuel goIter_Float = .ret s [.u64 bits, .bool false] :=
  (float_sim pj i fuel).ok_iff bits (by intro b _ h; simpa using h)

theorem float_error_iff :
    (∃ e, i.float pj = .error e) ↔ ∃ s v, run pj i fuel goIter_Float = .ret s [v, .bool true] := by
  constructor
  · rintro ⟨e, h⟩; obtain ⟨s, hs⟩ := (float_sim pj i fuel).error_vals e h; exact ⟨s, _, hs⟩
  · rintro ⟨s, v, hs⟩; exact (float_sim pj i fuel).error_iff.mpr ⟨s, [v], hs⟩

theorem floatFlags_ok_iff (bits flags : UInt64) :
    i.floatFlags pj = .ok (bits, flags) ↔
      ∃ s, run pj i fuel goIter_FloatFlags = .ret s [.u64 bits, .u64 flags, .bool false] :=
  (floatFlags_sim pj i fuel).ok_iff (bits, flags) (by
    rintro ⟨b, f⟩ _ h
    simp at h
    simp [h.1, h.2])

theorem floatFlags_error_iff :
    (∃ e, i.floatFlags pj = .error e) ↔ ∃ s v f, run pj i fuel goIter_FloatFlags = .ret s [v, f, .bool true] := by
  constructor
  · rintro ⟨e, h⟩; obtain ⟨s, hs⟩ := (floatFlags_sim pj i fuel).error_vals e h; exact ⟨s, _, _, hs⟩
  · rintro ⟨s, v, f, hs⟩; exact (floatFlags_sim pj i fuel).error_iff.mpr ⟨s, [v, f], hs⟩

theorem int_ok_iff (z : Int) :
    i.int pj = .ok z ↔ ∃ s, run pj i fuel goIter_Int = .ret s [.int z, .bool false] :=
  (int_sim pj i fuel).ok_iff z (by intro b _ h; simpa using h)

theorem int_error_iff :
    (∃ e, i.int pj = .error e) ↔ ∃ s v, run pj i fuel goIter_Int = .ret s [v, .bool true] := by
  constructor
  · rintro ⟨e, h⟩; obtain ⟨s, hs⟩ := (int_sim pj i fuel).error_vals e h; exact ⟨s, _, hs⟩
  · rintro ⟨s, v, hs⟩; exact (int_sim pj i fuel).error_iff.mpr ⟨s, [v], hs⟩

theorem uint_ok_iff (n : Nat) (hn : n < 2^64) :
    i.uint pj = .ok n ↔ ∃ s, run pj i fuel goIter_Uint = .ret s [.u64 (UInt64.ofNat n), .bool false] :=
  (uint_sim pj i fuel).ok_iff n (by
    intro b hb h
    have hb' := uint_lt pj i b hb
    simp at h
    have := congrArg UInt64.toNat h
    rw [UInt64.toNat_ofNat_of_lt' hb', UInt64.toNat_ofNat_of_lt' hn] at this
    exact this)

theorem uint_error_iff :
    (∃ e, i.uint pj = .error e) ↔ ∃ s v, run pj i fuel goIter_Uint = .ret s [v, .bool true] := by
  constructor
  · rintro ⟨e, h⟩; obtain ⟨s, hs⟩ := (uint_sim pj i fuel).error_vals e h; exact ⟨s, _, hs⟩
  · rintro ⟨s, v, hs⟩; exact (uint_sim pj i fuel).error_iff.mpr ⟨s, [v], hs⟩

/-- on a view of the tape the interpreter does not panic either -/
theorem float_run_ne_panic (hl : i.lim ≤ pj.tape.size) : run pj i fuel goIter_Float ≠ .panic :=
  fun h => float_ne_panic pj i hl ((float_sim pj i fuel).panic_iff.mpr h)
theorem floatFlags_run_ne_panic (hl : i.lim ≤ pj.tape.size) : run pj i fuel goIter_FloatFlags ≠ .panic :=
  fun h => floatFlags_ne_panic pj i hl ((floatFlags_sim pj i fuel).panic_iff.mpr h)
theorem int_run_ne_panic (hl : i.lim ≤ pj.tape.size) : run pj i fuel goIter_Int ≠ .panic :=
  fun h => int_ne_panic pj i hl ((int_sim pj i fuel).panic_iff.mpr h)
theorem uint_run_ne_panic (hl : i.lim ≤ pj.tape.size) : run pj i fuel goIter_Uint ≠ .panic :=
  fun h => uint_ne_panic pj i hl ((uint_sim pj i fuel).panic_iff.mpr h)

end Ties

/-- The source tie of the numeric accessors: the four hand-model functions are the meaning of the four regenerated
    syntax trees (for every document, iterator and fuel); on a view of the tape neither side panics; `Uint()`'s result
    fits the uint64 it is returned in. -/
theorem go_num_source_tie (pj : PJ) (i : Iter) (fuel : Nat) :
    SimR pj.tape i (fun b => [.u64 b]) [.u64 0]
      (runFun goFuns goIter_Float fuel { env := envOf "i" i, tape := pj.tape }) (i.float pj) ∧
    SimR pj.tape i (fun p => [.u64 p.1, .u64 p.2]) [.u64 0, .u64 0]
      (runFun goFuns goIter_FloatFlags fuel { env := envOf "i" i, tape := pj.tape }) (i.floatFlags pj) ∧
    SimR pj.tape i (fun z => [.int z]) [.int 0]
      (runFun goFuns goIter_Int fuel { env := envOf "i" i, tape := pj.tape }) (i.int pj) ∧
    SimR pj.tape i (fun n => [.u64 (UInt64.ofNat n)]) [.u64 0]
      (runFun goFuns goIter_Uint fuel { env := envOf "i" i, tape := pj.tape }) (i.uint pj) ∧
    (∀ n, i.uint pj = .ok n → n < 2^64) ∧
    (i.lim ≤ pj.tape.size →
      i.float pj ≠ .panic ∧ i.floatFlags pj ≠ .panic ∧ i.int pj ≠ .panic ∧ i.uint pj ≠ .panic) :=
  ⟨float_sim pj i fuel, floatFlags_sim pj i fuel, int_sim pj i fuel, uint_sim pj i fuel, uint_lt pj i,
   fun hl => ⟨float_ne_panic pj i hl, floatFlags_ne_panic pj i hl, int_ne_panic pj i hl, uint_ne_panic pj i hl⟩⟩

end SJ.GoNum
