import SJ.Proofs.GoObject
set_option linter.unusedVariables false
set_option linter.unusedSimpArgs false
/-
GoDeleteLemmas — vocabulary and call lemmas for `GoDelete.lean`
(`Array.FirstType`, `Array.ForEach`, `Array.DeleteElems`, `Object.ForEach`, `Object.DeleteElems`).
-/
namespace SJ.GoDelete
open SJ SJ.GoSem SJ.Generated SJ.GoIter SJ.GoObject SJ.GoSet

attribute [local simp] exec exec1 execCases evalE evalEs isOneOf binop convert ofE copyFields bindParams
  iterFields runFun tblLookup Env.get_set

/-! ## `Iter.Advance` on any store, with the variables it leaves alone -/

theorem Frame.setIter {e e' : Env} (h : Frame e e') (j : Iter) : Frame e (setIter e' "i" j) := by
  unfold GoIter.setIter
  exact ((((h.set _ _ (by decide)).set _ _ (by decide)).set _ _ (by decide)).set _ _ (by decide)).set _ _ (by decide)

/-- `LoopSim` of `GoIter`, with the frame -/
def LoopSimF (tape : Array UInt64) (e : Env) (o : Out) (r : Res (Iter × Bool)) : Prop :=
  match r with
  | .ok (j', true) =>
    ∃ s, o = .normal s ∧ s.tape = tape ∧ iterAt s.env "i" = some j' ∧ j'.cur.toNat < 2^56 ∧ Frame e s.env
  | .ok (j', false) => ∃ s, o = .ret s [.u8 0] ∧ s.tape = tape ∧ iterAt s.env "i" = some j' ∧ Frame e s.env
  | .panic => o = .panic
  | _ => False

theorem LoopSimF.mono {tape : Array UInt64} {e0 e : Env} {o : Out} {r : Res (Iter × Bool)} (hF : Frame e0 e)
    (h : LoopSimF tape e o r) : LoopSimF tape e0 o r := by
  unfold LoopSimF at h ⊢
  split at h
  · obtain ⟨s, a, b, c, d, e'⟩ := h
    exact ⟨s, a, b, c, d, hF.trans e'⟩
  · obtain ⟨s, a, b, c, e'⟩ := h
    exact ⟨s, a, b, c, hF.trans e'⟩
  · exact h
  · exact h

theorem advance_loopF (pj : PJ) : ∀ (n : Nat) (j : Iter) (fuel : Nat) (e : Env), j.lim - j.off ≤ n → n + 1 < fuel →
    j.lim ≤ pj.tape.size → iterAt e "i" = some j →
    LoopSimF pj.tape e (exec1 goFuns fuel (.loop (firstLoop goIter_Advance.body)) ⟨e, pj.tape⟩)
      (Iter.advanceLoop pj j j.off) := by
  have hend : ∀ (j : Iter) (f : Nat) (e : Env), j.off ≥ j.lim → j.lim ≤ pj.tape.size → iterAt e "i" = some j →
      LoopSimF pj.tape e (exec1 goFuns (f + 2) (.loop (firstLoop goIter_Advance.body)) ⟨e, pj.tape⟩)
        (Iter.advanceLoop pj j j.off) := by
    intro j f e h hsz hI
    obtain ⟨h1, h2, h3, h4, h5⟩ := iterAt_get_i _ _ hI
    rw [exec1, advance_body e pj.tape f j hI hsz, advanceLoop_self]
    simp only [h, dif_pos, LoopSimF]
    refine ⟨_, rfl, rfl, ?_, ?_⟩
    · apply iterAt_of_gets <;> simp [h1, h3, h5, tagEnd]
    · exact ((Frame.refl e).set _ _ (by decide)).set _ _ (by decide)
  intro n
  induction n with
  | zero =>
    intro j fuel e hn hf hsz hI
    obtain ⟨f, rfl⟩ : ∃ f, fuel = f + 2 := ⟨fuel - 2, by omega⟩
    exact hend j f e (by omega) hsz hI
  | succ n ih =>
    intro j fuel e hn hf hsz hI
    obtain ⟨f, rfl⟩ : ∃ f, fuel = f + 2 := ⟨fuel - 2, by omega⟩
    by_cases h : j.off ≥ j.lim
    · exact hend j f e h hsz hI
    · obtain ⟨h1, h2, h3, h4, h5⟩ := iterAt_get_i _ _ hI
      rw [exec1, advance_body e pj.tape f j hI hsz, advanceLoop_self]
      have hr : pj.tape[j.off]? = some (pj.tape[j.off]'(by omega)) := by simp
      simp only [h, dif_neg, not_false_eq_true, Iter.rdT, rd, hr, Res.bind_ok]
      generalize pj.tape[j.off] = v
      have hF : Frame e ((((e.set "v" (.u64 v)).set "i.t" (.u8 (tagOf v))).set "i.off" (.int (j.off + 1))).set "i.cur"
          (.u64 (payloadOf v))) :=
        ((((Frame.refl e).set _ _ (by decide)).set _ _ (by decide)).set _ _ (by decide)).set _ _ (by decide)
      by_cases hn' : tagOf v = tagNop
      · by_cases hz : payloadOf v = 0
        · simp only [hn', hz, if_true, beq_self_eq_true, LoopSimF]
          exact ⟨_, rfl, rfl, iterAt_setIter_i _ _, Frame.setIter (by simpa [hn', hz] using hF) _⟩
        · have hz' := payload_toNat_ne v hz
          simp only [hn', hz, if_true, if_false, beq_self_eq_true, beq_iff_eq]
          have hF' := hF.set "i.off" (.int ((j.off : Int) + 1 + (((payloadOf v).toNat : Int) - 1))) (by decide)
          simp only [hn'] at hF'
          refine LoopSimF.mono hF' (ih _ (f + 1) _ (by simp only; omega) (by omega) hsz ?_)
          apply iterAt_of_gets <;> simp [h2, h5]
          omega
      · have hb : (tagOf v == tagNop) = false := by simp [hn']
        simp only [hn', hb, if_false, LoopSimF]
        refine ⟨_, rfl, rfl, ?_, payload_lt v, hF⟩
        apply iterAt_of_gets <;> simp [h2, h5]

/-- the statements after the loop of `Advance`, on any store, with the frame -/
theorem advance_tailF (s : St) (j : Iter) (f : Nat) (hI : iterAt s.env "i" = some j) (hcur : j.cur.toNat < 2^63) :
    ∃ s', exec goFuns (f + 1) (afterLoop goIter_Advance.body) s =
        .ret s' [.u8 (if (j.calcNext false).addNext < 0 then typeNone else tagToType (j.calcNext false).t)] ∧
      s'.tape = s.tape ∧
      iterAt s'.env "i" = some (if (j.calcNext false).addNext < 0 then (j.calcNext false).moveToEnd
        else j.calcNext false) ∧ Frame s.env s'.env := by
  simp only [goIter_Advance, afterLoop]
  rw [exec, call_calcNext_i s j false f hI hcur]
  simp only []
  have hI2 := iterAt_setIter_i s.env (j.calcNext false)
  have hF2 : Frame s.env (setIter s.env "i" (j.calcNext false)) := Frame.setIter (Frame.refl _) _
  generalize setIter s.env "i" (j.calcNext false) = e1 at hI2 hF2
  generalize j.calcNext false = j2 at hI2
  obtain ⟨h1, h2, h3, h4, h5⟩ := iterAt_get_i _ _ hI2
  by_cases hneg : j2.addNext < 0
  · simp only [hneg, if_true]
    refine ⟨⟨setIter e1 "i" j2.moveToEnd, s.tape⟩, ?_, rfl, iterAt_setIter_i _ _, Frame.setIter hF2 _⟩
    simp [h1, h2, h3, h4, h5, hneg, goFuns, goIter_moveToEnd, Env.set, Env.get, setIter, Iter.moveToEnd, tagEnd,
      typeNone]
  · simp only [hneg, if_false]
    refine ⟨⟨e1, s.tape⟩, ?_, rfl, hI2, hF2⟩
    simp [h1, h2, h3, h4, h5, hneg, tagToType]

/-- outcome of `Advance` run on the store `e` against the model -/
def AdvPost (pj : PJ) (e : Env) (o : Out) (r : Res (Iter × UInt8)) : Prop :=
  match r with
  | .ok (i', t) => ∃ e', o = .ret ⟨e', pj.tape⟩ [.u8 t] ∧ iterAt e' "i" = some i' ∧ Frame e e'
  | .panic => o = .panic
  | _ => False

/-- `Advance` IS `Iter.advance`, from any store that holds the receiver -/
theorem advance_abs (pj : PJ) (i : Iter) (hl : i.lim ≤ pj.tape.size) (e : Env) (hI0 : iterAt e "i" = some i)
    (fuel : Nat) (hf : i.lim + 3 ≤ fuel) :
    AdvPost pj e (exec goFuns fuel goIter_Advance.body ⟨e, pj.tape⟩) (i.advance pj) := by
  have hbody : goIter_Advance.body = .assign "i.off" (.bin .add (.v "i.off") (.v "i.addNext")) ::
      .loop (firstLoop goIter_Advance.body) :: afterLoop goIter_Advance.body := rfl
  obtain ⟨g1, g2, g3, g4, g5⟩ := iterAt_get_i _ _ hI0
  have h1 : exec1 goFuns fuel (.assign "i.off" (.bin .add (.v "i.off") (.v "i.addNext"))) ⟨e, pj.tape⟩ =
      .normal ⟨e.set "i.off" (.int ((i.off : Int) + i.addNext)), pj.tape⟩ := by
    simp [g1, g2]
  have hF1 : Frame e (e.set "i.off" (.int ((i.off : Int) + i.addNext))) := (Frame.refl e).set _ _ (by decide)
  obtain ⟨f, rfl⟩ : ∃ f, fuel = f + 2 := ⟨fuel - 2, by omega⟩
  rw [hbody, exec, h1]
  simp only []
  unfold Iter.advance Iter.bump
  by_cases ho : (i.off : Int) + i.addNext < 0
  · have hp : exec1 goFuns (f + 2) (.loop (firstLoop goIter_Advance.body))
        ⟨e.set "i.off" (.int ((i.off : Int) + i.addNext)), pj.tape⟩ = .panic := by
      rw [exec1, advance_body_neg _ pj.tape (f + 1) _ i.lim ho (Env.get_set_self _ _ _)
        (by simp [g5])]
    rw [exec_cons_final _ _ _ _ _ (by rw [hp]; rfl), hp]
    simp [ho, AdvPost]
  · simp only [ho, if_false, Res.bind_ok]
    have hI : iterAt (e.set "i.off" (.int ((i.off : Int) + i.addNext))) "i" =
        some { i with off := ((i.off : Int) + i.addNext).toNat } := by
      apply iterAt_of_gets <;> simp [g2, g3, g4, g5]
      omega
    have hloop := advance_loopF pj i.lim { i with off := ((i.off : Int) + i.addNext).toNat } (f + 2) _
      (Nat.sub_le _ _) (by omega) hl hI
    simp only at hloop
    rw [advanceLoop_off pj _ i _ (Nat.le_refl _)]
    rw [exec]
    generalize exec1 goFuns (f + 2) (.loop (firstLoop goIter_Advance.body))
      ⟨e.set "i.off" (.int ((i.off : Int) + i.addNext)), pj.tape⟩ = out at hloop ⊢
    cases hg : Iter.advanceLoop pj { i with off := ((i.off : Int) + i.addNext).toNat } ((i.off : Int) + i.addNext).toNat with
    | ok r =>
      obtain ⟨a, l⟩ := r
      rw [hg] at hloop
      cases l with
      | true =>
        obtain ⟨s, rfl, hst, hIs, hc, hFs⟩ := hloop
        simp only []
        obtain ⟨s', hx, hst', hIs', hFs'⟩ := advance_tailF s a (f + 1) hIs (by omega)
        rw [hx]
        have hts : s'.tape = pj.tape := by rw [hst', hst]
        obtain ⟨e', t'⟩ := s'
        simp only at hts
        subst hts
        simp only [Res.bind_ok, Bool.not_true, Bool.false_eq_true, if_false]
        have hFF : Frame e e' := (hF1.trans hFs).trans hFs'
        by_cases hneg : (a.calcNext false).addNext < 0
        · simp only [hneg, if_true] at hIs' ⊢
          exact ⟨e', rfl, hIs', hFF⟩
        · simp only [hneg, if_false] at hIs' ⊢
          exact ⟨e', rfl, hIs', hFF⟩
      | false =>
        obtain ⟨s, rfl, hst, hIs, hFs⟩ := hloop
        obtain ⟨e', t'⟩ := s
        simp only at hst
        subst hst
        simp only [Res.bind_ok, Bool.not_false, if_true, AdvPost, typeNone]
        exact ⟨e', rfl, hIs, hF1.trans hFs⟩
    | panic =>
      rw [hg] at hloop
      simp only [LoopSimF] at hloop
      subst hloop
      simp [AdvPost]
    | error e => rw [hg] at hloop; exact hloop.elim
    | diverge => rw [hg] at hloop; exact hloop.elim

end SJ.GoDelete
