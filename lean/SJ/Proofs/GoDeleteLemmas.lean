import SJ.Proofs.GoObject
set_option linter.unusedVariables false
set_option linter.unusedSimpArgs false
/-
GoDeleteLemmas — vocabulary and call lemmas for `GoDelete.lean`
(`Array.FirstType`, `Array.ForEach`, `Array.DeleteElems`, `Object.ForEach`, `Object.DeleteElems`).

* `advance_loopF`/`advance_tailF`/`advance_abs`: `Iter.Advance` IS `Iter.advance` from ANY store holding the receiver,
  with the frame (what it leaves alone); `callFun_advance`/`exec1_advance`: `t = pfx.Advance()` on a local iterator
  `pfx` through `callFun` (callee frame `envOf "i" i ++ bufEnv pj`, fields and buffers copied back: `advEnv`).
  `peekNext_abs`/`callFun_peekNext` likewise.
* `fillLoop`/`fill_run`/`fillTail_run`: the NOP fill loop of both `DeleteElems`, run by the interpreter, IS
  `Iter.nopFillV lim` (index checked against the VIEW), for any loop variable / iterator name.
  `nopFillV_eq_nopFill`, `nopFill_size`, `nopFillV_size`: the array-checked `nopFill` against it (both `DeleteElems` of
  the model use `nopFillV` since the repair described in `GoDelete.lean`).
* `advance_facts`: a step of the model's `advance` that returns an element moves the cursor forward, stays in the view,
  leaves `addNext ≥ 0`, and stands on the word it read.
* `ItInv`/`advEnv`/`logOf`/`encIter`/`encNI`, the callback statements (`exec1_cb_*`), and the pieces of the body of the
  two `Object` loops in continuation style (`objHeadA_run`, `objHeadB_run`, `objFilter_run`, `objValue_run`).
-/
namespace SJ.GoDelete
open SJ SJ.GoSem SJ.Generated SJ.GoIter SJ.GoObject SJ.GoSet

attribute [local simp] exec exec1 execCases evalE evalEs isOneOf binop convert ofE copyFields bindParams
  iterFields runFun tblLookup Env.get_set

/-! ## `Iter.Advance` on any store, with the variables it leaves alone -/

theorem Frame.setIter {e e' : Env} (h : Frame e e') (j : Iter) : Frame e (setIter e' "i" j) := by
  unfold GoIter.setIter
  exact ((((h.set _ _ (by decide)).set _ _ (by decide)).set _ _ (by decide)).set _ _ (by decide)).set _ _ (by decide)

/-- `LoopSim` of `GoIter`, with the frame -/
def LoopSimF (tape : Array UInt64) (e : Env) (o : Out) (r : Res (Iter × Bool)) : Prop :=
  match r with
  | .ok (j', true) =>
    ∃ s, o = .normal s ∧ s.tape = tape ∧ iterAt s.env "i" = some j' ∧ j'.cur.toNat < 2^56 ∧ Frame e s.env
  | .ok (j', false) => ∃ s, o = .ret s [.u8 0] ∧ s.tape = tape ∧ iterAt s.env "i" = some j' ∧ Frame e s.env
  | .panic => o = .panic
  | _ => False

theorem LoopSimF.mono {tape : Array UInt64} {e0 e : Env} {o : Out} {r : Res (Iter × Bool)} (hF : Frame e0 e)
    (h : LoopSimF tape e o r) : LoopSimF tape e0 o r := by
  unfold LoopSimF at h ⊢
  split at h
  · obtain ⟨s, a, b, c, d, e'⟩ := h
    exact ⟨s, a, b, c, d, hF.trans e'⟩
  · obtain ⟨s, a, b, c, e'⟩ := h
    exact ⟨s, a, b, c, hF.trans e'⟩
  · exact h
  · exact h

theorem advance_loopF (pj : PJ) : ∀ (n : Nat) (j : Iter) (fuel : Nat) (e : Env), j.lim - j.off ≤ n → n + 1 < fuel →
    j.lim ≤ pj.tape.size → iterAt e "i" = some j →
    LoopSimF pj.tape e (exec1 goFuns fuel (.loop (firstLoop goIter_Advance.body)) ⟨e, pj.tape⟩)
      (Iter.advanceLoop pj j j.off) := by
  have hend : ∀ (j : Iter) (f : Nat) (e : Env), j.off ≥ j.lim → j.lim ≤ pj.tape.size → iterAt e "i" = some j →
      LoopSimF pj.tape e (exec1 goFuns (f + 2) (.loop (firstLoop goIter_Advance.body)) ⟨e, pj.tape⟩)
        (Iter.advanceLoop pj j j.off) := by
    intro j f e h hsz hI
    obtain ⟨h1, h2, h3, h4, h5⟩ := iterAt_get_i _ _ hI
    rw [exec1, advance_body e pj.tape f j hI hsz, advanceLoop_self]
    simp only [h, dif_pos, LoopSimF]
    refine ⟨_, rfl, rfl, ?_, ?_⟩
    · apply iterAt_of_gets <;> simp [h1, h3, h5, tagEnd]
    · exact ((Frame.refl e).set _ _ (by decide)).set _ _ (by decide)
  intro n
  induction n with
  | zero =>
    intro j fuel e hn hf hsz hI
    obtain ⟨f, rfl⟩ : ∃ f, fuel = f + 2 := ⟨fuel - 2, by omega⟩
    exact hend j f e (by omega) hsz hI
  | succ n ih =>
    intro j fuel e hn hf hsz hI
    obtain ⟨f, rfl⟩ : ∃ f, fuel = f + 2 := ⟨fuel - 2, by omega⟩
    by_cases h : j.off ≥ j.lim
    · exact hend j f e h hsz hI
    · obtain ⟨h1, h2, h3, h4, h5⟩ := iterAt_get_i _ _ hI
      rw [exec1, advance_body e pj.tape f j hI hsz, advanceLoop_self]
      have hr : pj.tape[j.off]? = some (pj.tape[j.off]'(by omega)) := by simp
      simp only [h, dif_neg, not_false_eq_true, Iter.rdT, rd, hr, Res.bind_ok]
      generalize pj.tape[j.off] = v
      have hF : Frame e ((((e.set "v" (.u64 v)).set "i.t" (.u8 (tagOf v))).set "i.off" (.int (j.off + 1))).set "i.cur"
          (.u64 (payloadOf v))) :=
        ((((Frame.refl e).set _ _ (by decide)).set _ _ (by decide)).set _ _ (by decide)).set _ _ (by decide)
      by_cases hn' : tagOf v = tagNop
      · by_cases hz : payloadOf v = 0
        · simp only [hn', hz, if_true, beq_self_eq_true, LoopSimF]
          exact ⟨_, rfl, rfl, iterAt_setIter_i _ _, Frame.setIter (by simpa [hn', hz] using hF) _⟩
        · have hz' := payload_toNat_ne v hz
          simp only [hn', hz, if_true, if_false, beq_self_eq_true, beq_iff_eq]
          have hF' := hF.set "i.off" (.int ((j.off : Int) + 1 + (((payloadOf v).toNat : Int) - 1))) (by decide)
          simp only [hn'] at hF'
          refine LoopSimF.mono hF' (ih _ (f + 1) _ (by simp only; omega) (by omega) hsz ?_)
          apply iterAt_of_gets <;> simp [h2, h5]
          omega
      · have hb : (tagOf v == tagNop) = false := by simp [hn']
        simp only [hn', hb, if_false, LoopSimF]
        refine ⟨_, rfl, rfl, ?_, payload_lt v, hF⟩
        apply iterAt_of_gets <;> simp [h2, h5]

/-- the statements after the loop of `Advance`, on any store, with the frame -/
theorem advance_tailF (s : St) (j : Iter) (f : Nat) (hI : iterAt s.env "i" = some j) (hcur : j.cur.toNat < 2^63) :
    ∃ s', exec goFuns (f + 1) (afterLoop goIter_Advance.body) s =
        .ret s' [.u8 (if (j.calcNext false).addNext < 0 then typeNone else tagToType (j.calcNext false).t)] ∧
      s'.tape = s.tape ∧
      iterAt s'.env "i" = some (if (j.calcNext false).addNext < 0 then (j.calcNext false).moveToEnd
        else j.calcNext false) ∧ Frame s.env s'.env := by
  simp only [goIter_Advance, afterLoop]
  rw [exec, call_calcNext_i s j false f hI hcur]
  simp only []
  have hI2 := iterAt_setIter_i s.env (j.calcNext false)
  have hF2 : Frame s.env (setIter s.env "i" (j.calcNext false)) := Frame.setIter (Frame.refl _) _
  generalize setIter s.env "i" (j.calcNext false) = e1 at hI2 hF2
  generalize j.calcNext false = j2 at hI2
  obtain ⟨h1, h2, h3, h4, h5⟩ := iterAt_get_i _ _ hI2
  by_cases hneg : j2.addNext < 0
  · simp only [hneg, if_true]
    refine ⟨⟨setIter e1 "i" j2.moveToEnd, s.tape⟩, ?_, rfl, iterAt_setIter_i _ _, Frame.setIter hF2 _⟩
    simp [h1, h2, h3, h4, h5, hneg, goFuns, goIter_moveToEnd, Env.set, Env.get, setIter, Iter.moveToEnd, tagEnd,
      typeNone]
  · simp only [hneg, if_false]
    refine ⟨⟨e1, s.tape⟩, ?_, rfl, hI2, hF2⟩
    simp [h1, h2, h3, h4, h5, hneg, tagToType]

/-- outcome of `Advance` run on the store `e` against the model -/
def AdvPost (pj : PJ) (e : Env) (o : Out) (r : Res (Iter × UInt8)) : Prop :=
  match r with
  | .ok (i', t) => ∃ e', o = .ret ⟨e', pj.tape⟩ [.u8 t] ∧ iterAt e' "i" = some i' ∧ Frame e e'
  | .panic => o = .panic
  | _ => False

/-- `Advance` IS `Iter.advance`, from any store that holds the receiver -/
theorem advance_abs (pj : PJ) (i : Iter) (hl : i.lim ≤ pj.tape.size) (e : Env) (hI0 : iterAt e "i" = some i)
    (fuel : Nat) (hf : i.lim + 3 ≤ fuel) :
    AdvPost pj e (exec goFuns fuel goIter_Advance.body ⟨e, pj.tape⟩) (i.advance pj) := by
  have hbody : goIter_Advance.body = .assign "i.off" (.bin .add (.v "i.off") (.v "i.addNext")) ::
      .loop (firstLoop goIter_Advance.body) :: afterLoop goIter_Advance.body := rfl
  obtain ⟨g1, g2, g3, g4, g5⟩ := iterAt_get_i _ _ hI0
  have h1 : exec1 goFuns fuel (.assign "i.off" (.bin .add (.v "i.off") (.v "i.addNext"))) ⟨e, pj.tape⟩ =
      .normal ⟨e.set "i.off" (.int ((i.off : Int) + i.addNext)), pj.tape⟩ := by
    simp [g1, g2]
  have hF1 : Frame e (e.set "i.off" (.int ((i.off : Int) + i.addNext))) := (Frame.refl e).set _ _ (by decide)
  obtain ⟨f, rfl⟩ : ∃ f, fuel = f + 2 := ⟨fuel - 2, by omega⟩
  rw [hbody, exec, h1]
  simp only []
  unfold Iter.advance Iter.bump
  by_cases ho : (i.off : Int) + i.addNext < 0
  · have hp : exec1 goFuns (f + 2) (.loop (firstLoop goIter_Advance.body))
        ⟨e.set "i.off" (.int ((i.off : Int) + i.addNext)), pj.tape⟩ = .panic := by
      rw [exec1, advance_body_neg _ pj.tape (f + 1) _ i.lim ho (Env.get_set_self _ _ _)
        (by simp [g5])]
    rw [exec_cons_final _ _ _ _ _ (by rw [hp]; rfl), hp]
    simp [ho, AdvPost]
  · simp only [ho, if_false, Res.bind_ok]
    have hI : iterAt (e.set "i.off" (.int ((i.off : Int) + i.addNext))) "i" =
        some { i with off := ((i.off : Int) + i.addNext).toNat } := by
      apply iterAt_of_gets <;> simp [g2, g3, g4, g5]
      omega
    have hloop := advance_loopF pj i.lim { i with off := ((i.off : Int) + i.addNext).toNat } (f + 2) _
      (Nat.sub_le _ _) (by omega) hl hI
    simp only at hloop
    rw [advanceLoop_off pj _ i _ (Nat.le_refl _)]
    rw [exec]
    generalize exec1 goFuns (f + 2) (.loop (firstLoop goIter_Advance.body))
      ⟨e.set "i.off" (.int ((i.off : Int) + i.addNext)), pj.tape⟩ = out at hloop ⊢
    cases hg : Iter.advanceLoop pj { i with off := ((i.off : Int) + i.addNext).toNat } ((i.off : Int) + i.addNext).toNat with
    | ok r =>
      obtain ⟨a, l⟩ := r
      rw [hg] at hloop
      cases l with
      | true =>
        obtain ⟨s, rfl, hst, hIs, hc, hFs⟩ := hloop
        simp only []
        obtain ⟨s', hx, hst', hIs', hFs'⟩ := advance_tailF s a (f + 1) hIs (by omega)
        rw [hx]
        have hts : s'.tape = pj.tape := by rw [hst', hst]
        obtain ⟨e', t'⟩ := s'
        simp only at hts
        subst hts
        simp only [Res.bind_ok, Bool.not_true, Bool.false_eq_true, if_false]
        have hFF : Frame e e' := (hF1.trans hFs).trans hFs'
        by_cases hneg : (a.calcNext false).addNext < 0
        · simp only [hneg, if_true] at hIs' ⊢
          exact ⟨e', rfl, hIs', hFF⟩
        · simp only [hneg, if_false] at hIs' ⊢
          exact ⟨e', rfl, hIs', hFF⟩
      | false =>
        obtain ⟨s, rfl, hst, hIs, hFs⟩ := hloop
        obtain ⟨e', t'⟩ := s
        simp only at hst
        subst hst
        simp only [Res.bind_ok, Bool.not_false, if_true, AdvPost, typeNone]
        exact ⟨e', rfl, hIs, hF1.trans hFs⟩
    | panic =>
      rw [hg] at hloop
      simp only [LoopSimF] at hloop
      subst hloop
      simp [AdvPost]
    | error e => rw [hg] at hloop; exact hloop.elim
    | diverge => rw [hg] at hloop; exact hloop.elim


/-! ## calling `Advance` on a local iterator -/

theorem dotField (pfx f : String) : pfx ++ "." ++ f = pfx ++ ("." ++ f) := String.append_assoc

/-- `t = pfx.Advance()` through `callFun`, from any caller that holds the iterator `pfx` and the two buffers: the callee
    runs on the frame `envOf "i" i ++ bufEnv pj`; fields and buffers come back -/
theorem callFun_advance (pj : PJ) (s : St) (pfx : String) (i : Iter) (f : Nat) (hl : i.lim ≤ pj.tape.size)
    (ht : s.tape = pj.tape) (hI : iterAt s.env pfx = some i)
    (hS : s.env.get "Strings.B" = some (.bytes pj.strings)) (hM : s.env.get "Message" = some (.bytes pj.msg))
    (hf : i.lim + 3 ≤ f) :
    match i.advance pj with
    | .ok (i', t) => callFun goFuns f pfx "Iter.Advance" [] [] s =
        .ret ⟨((setIter s.env pfx i').set "Strings.B" (.bytes pj.strings)).set "Message" (.bytes pj.msg), pj.tape⟩
          [.u8 t]
    | .panic => callFun goFuns f pfx "Iter.Advance" [] [] s = .panic
    | _ => False := by
  obtain ⟨g1, g2, g3, g4, g5⟩ := iterAt_get _ _ _ hI
  have hI0 : iterAt (envOf "i" i ++ bufEnv pj) "i" = some i := by simp [envOf, bufEnv, Env.get, iterAt]
  have he := advance_abs pj i hl (envOf "i" i ++ bufEnv pj) hI0 f hf
  have hS0 : (envOf "i" i ++ bufEnv pj).get "Strings.B" = some (.bytes pj.strings) := by simp [envOf, bufEnv, Env.get]
  have hM0 : (envOf "i" i ++ bufEnv pj).get "Message" = some (.bytes pj.msg) := by simp [envOf, bufEnv, Env.get]
  cases hr : i.advance pj with
  | ok r =>
    obtain ⟨i', t⟩ := r
    rw [hr] at he
    obtain ⟨e', hx, hI', hF⟩ := he
    obtain ⟨k1, k2, k3, k4, k5⟩ := iterAt_get_i _ _ hI'
    have hS' : e'.get "Strings.B" = some (.bytes pj.strings) := by rw [hF _ (by decide), hS0]
    have hM' : e'.get "Message" = some (.bytes pj.msg) := by rw [hF _ (by decide), hM0]
    simp only [envOf, bufEnv, List.cons_append, List.nil_append, String.reduceAppend, goIter_Advance] at hx
    simp only []
    rw [callFun]
    simp [goFuns, goIter_Advance, dotField, g1, g2, g3, g4, g5, hS, hM, copyPtrs, copyGlobals, globalVars, copyPtrsBack,
      Env.set, Env.get, -exec, -exec1, ht]
    rw [hx]
    simp [k1, k2, k3, k4, k5, hS', hM', copyGlobals, globalVars, setIter, dotField, copyPtrsBack]
  | panic =>
    rw [hr] at he
    simp only [AdvPost] at he
    simp only [envOf, bufEnv, List.cons_append, List.nil_append, String.reduceAppend, goIter_Advance] at he
    simp only []
    rw [callFun]
    simp [goFuns, goIter_Advance, dotField, g1, g2, g3, g4, g5, hS, hM, copyPtrs, copyGlobals, globalVars, copyPtrsBack,
      Env.set, Env.get, -exec, -exec1, ht]
    rw [he]
  | error e => rw [hr] at he; exact he.elim
  | diverge => rw [hr] at he; exact he.elim

/-! ## `Iter.PeekNext` on any store, and called on a local iterator -/

theorem peekNext_abs (pj : PJ) (i : Iter) (hl : i.lim ≤ pj.tape.size) (e : Env) (hI0 : iterAt e "i" = some i)
    (fuel : Nat) (hf : i.lim + 1 ≤ fuel) :
    SimV pj.tape i (exec goFuns fuel goIter_PeekNext.body ⟨e, pj.tape⟩) (i.peekNext pj) := by
  have hbody : goIter_PeekNext.body = [.assign "off" (.bin .add (.v "i.off") (.v "i.addNext")),
      .loop (firstLoop goIter_PeekNext.body)] := rfl
  obtain ⟨g1, g2, g3, g4, g5⟩ := iterAt_get_i _ _ hI0
  have h1 : exec1 goFuns fuel (.assign "off" (.bin .add (.v "i.off") (.v "i.addNext"))) ⟨e, pj.tape⟩ =
      .normal ⟨e.set "off" (.int ((i.off : Int) + i.addNext)), pj.tape⟩ := by
    simp [g1, g2]
  have hI : iterAt (e.set "off" (.int ((i.off : Int) + i.addNext))) "i" = some i := by
    simp (disch := decide) only [iterAt_set_ne, hI0]
  have hloop : SimV pj.tape i (exec1 goFuns fuel (.loop (firstLoop goIter_PeekNext.body))
      ⟨e.set "off" (.int ((i.off : Int) + i.addNext)), pj.tape⟩) (i.peekNext pj) := by
    unfold Iter.peekNext Iter.peekNextTag Iter.bump
    by_cases ho : (i.off : Int) + i.addNext < 0
    · obtain ⟨f, rfl⟩ : ∃ f, fuel = f + 1 := ⟨fuel - 1, by omega⟩
      have hlim := (iterAt_get _ "i" i hI).2.2.2.2
      simp only [String.reduceAppend] at hlim
      rw [exec1, peek_body_neg _ pj.tape f _ i.lim ho (Env.get_set_self _ _ _) hlim]
      simp [ho, SimV]
    · simp only [ho, if_false, Res.bind_ok]
      have := peek_loop pj i hl i.lim ((i.off : Int) + i.addNext).toNat fuel _ (by omega) (by omega) hI
        (by rw [Env.get_set_self, Int.toNat_of_nonneg (by omega)])
      exact this
  rw [hbody, exec, h1]
  simp only []
  rw [exec_cons_final _ _ _ _ _ hloop.final]
  exact hloop

/-- `return pfx.PeekNext()` through `callFun` -/
theorem callFun_peekNext (pj : PJ) (s : St) (pfx : String) (i : Iter) (f : Nat) (hl : i.lim ≤ pj.tape.size)
    (ht : s.tape = pj.tape) (hI : iterAt s.env pfx = some i)
    (hS : s.env.get "Strings.B" = some (.bytes pj.strings)) (hM : s.env.get "Message" = some (.bytes pj.msg))
    (hf : i.lim + 1 ≤ f) :
    match i.peekNext pj with
    | .ok t => ∃ e', callFun goFuns f pfx "Iter.PeekNext" [] [] s = .ret ⟨e', pj.tape⟩ [.u8 t]
    | .panic => callFun goFuns f pfx "Iter.PeekNext" [] [] s = .panic
    | _ => False := by
  obtain ⟨g1, g2, g3, g4, g5⟩ := iterAt_get _ _ _ hI
  have hI0 : iterAt (envOf "i" i ++ bufEnv pj) "i" = some i := by simp [envOf, bufEnv, Env.get, iterAt]
  have he := peekNext_abs pj i hl (envOf "i" i ++ bufEnv pj) hI0 f hf
  cases hr : i.peekNext pj with
  | ok t =>
    rw [hr] at he
    obtain ⟨s', hx, hts, hI'⟩ := he
    obtain ⟨k1, k2, k3, k4, k5⟩ := iterAt_get_i _ _ hI'
    obtain ⟨e', t'⟩ := s'
    simp only at hts k1 k2 k3 k4 k5
    subst hts
    simp only [envOf, bufEnv, List.cons_append, List.nil_append, String.reduceAppend, goIter_PeekNext] at hx
    simp only []
    rw [callFun]
    simp [goFuns, goIter_PeekNext, dotField, g1, g2, g3, g4, g5, hS, hM, copyPtrs, copyGlobals, globalVars,
      copyPtrsBack, Env.set, Env.get, -exec, -exec1, ht]
    rw [hx]
    simp [k1, k2, k3, k4, k5, copyGlobals, globalVars, copyPtrsBack]
  | panic =>
    rw [hr] at he
    simp only [SimV] at he
    simp only [envOf, bufEnv, List.cons_append, List.nil_append, String.reduceAppend, goIter_PeekNext] at he
    simp only []
    rw [callFun]
    simp [goFuns, goIter_PeekNext, dotField, g1, g2, g3, g4, g5, hS, hM, copyPtrs, copyGlobals, globalVars,
      copyPtrsBack, Env.set, Env.get, -exec, -exec1, ht]
    rw [he]
  | error e => rw [hr] at he; exact he.elim
  | diverge => rw [hr] at he; exact he.elim

/-! ## entry stores -/

/-- what the store holds when a method of the `Array`/`Object` `r` is entered: the receiver and the two buffers -/
structure RecvIn (pj : PJ) (r : String) (v : View) (e : Env) : Prop where
  off : e.get (r ++ ".off") = some (.int v.off)
  lim : e.get (r ++ ".lim") = some (.int v.lim)
  sb : e.get "Strings.B" = some (.bytes pj.strings)
  ms : e.get "Message" = some (.bytes pj.msg)

/-! ## the NOP fill loop of `DeleteElems`, run by the interpreter

`for x := startO; x < end; x++ { b.tape.Tape[x] = Nop<<56 | skip; skip-- }` — the index is checked against the view of the
iterator `b` (`b.lim`): this is `Iter.nopFillV b.lim`, not `Iter.nopFill`. -/

/-- the loop as printed (checked against the generated trees in `GoDelete`, where the statement must match) -/
def fillLoop (x b : String) (init : List Stmt) : Stmt :=
  .forc init (.bin .lt (.v x) (.v "end")) [.assign x (.bin .add (.v x) (.int 1))] [
    .tapeSet b (.v x) (.bin .or (.bin .shl (.conv .u64 (.u8 78 /- TagNop -/)) (.int 56)) (.v "skip")),
    .assign "skip" (.bin .sub (.v "skip") (.u64 1))]

theorem ofNat_pred (n : Nat) (h : 0 < n) : UInt64.ofNat n - 1 = UInt64.ofNat (n - 1) := by
  obtain ⟨m, rfl⟩ : ∃ m, n = m + 1 := ⟨n - 1, by omega⟩
  apply UInt64.toNat_inj.mp
  simp [UInt64.toNat_sub]

theorem fill_run (x b : String) (lim hi : Nat) (hx1 : x ≠ "end") (hx2 : x ≠ "skip") (hx3 : x ≠ b ++ ".lim")
    (hb1 : "skip" ≠ b ++ ".lim") :
    ∀ (n j : Nat) (tape : Array UInt64) (e : Env) (fuel : Nat), min hi lim - j < n → n ≤ fuel →
      e.get x = some (.int j) → e.get "end" = some (.int hi) → e.get "skip" = some (.u64 (UInt64.ofNat (hi - j))) →
      e.get (b ++ ".lim") = some (.int lim) →
      match Iter.nopFillV lim tape j hi with
      | .ok t' => ∃ e', exec1 goFuns fuel (fillLoop x b []) ⟨e, tape⟩ = .normal ⟨e', t'⟩ ∧
          ∀ k, k ≠ x → k ≠ "skip" → e'.get k = e.get k
      | .panic => exec1 goFuns fuel (fillLoop x b []) ⟨e, tape⟩ = .panic
      | _ => False := by
  have hx1' : ¬ "end" = x := fun h => hx1 h.symm
  have hx2' : ¬ "skip" = x := fun h => hx2 h.symm
  intro n
  induction n with
  | zero => intro j tape e fuel h1; omega
  | succ n ih =>
    intro j tape e fuel h1 h2 gx ge gs gl
    obtain ⟨f, rfl⟩ : ∃ f, fuel = f + 1 := ⟨fuel - 1, by omega⟩
    by_cases hj : j < hi
    · have hj' : ((j : Int) < hi) := by omega
      rw [nopFillV_lt _ _ _ _ hj]
      by_cases hb : j < lim ∧ j < tape.size
      · rw [wrV_ok _ _ _ _ hb.1 hb.2]
        simp only [Res.bind_ok]
        have := ih (j + 1) (tape.set j (mkWord tagNop (UInt64.ofNat (hi - j))) hb.2)
          (((e.set "skip" (.u64 (UInt64.ofNat (hi - (j + 1))))).set x (.int ((j + 1 : Nat) : Int)))) f
          (by omega) (by omega) (by simp) (by simp [hx1, hx1', ge]) (by simp [hx2, hx2']) (by simp [hx3, hb1, gl])
        revert this
        cases Iter.nopFillV lim (tape.set j (mkWord tagNop (UInt64.ofNat (hi - j))) hb.2) (j + 1) hi with
        | ok t' =>
          rintro ⟨e', he, hfr⟩
          refine ⟨e', ?_, ?_⟩
          · simp only [fillLoop] at he
            simp [fillLoop, gx, ge, gs, gl, hj', hb, hx2', hx3, hb1, ofNat_pred _ (Nat.sub_pos_of_lt hj)]
            simp [mkWord, tagNop, Nat.sub_add_eq] at he
            exact he
          · intro k k1 k2
            rw [hfr k k1 k2, Env.get_set_ne _ _ (Ne.symm k1), Env.get_set_ne _ _ (Ne.symm k2)]
        | panic =>
          intro he
          simp only [fillLoop] at he
          simp [fillLoop, gx, ge, gs, gl, hj', hb, hx2', hx3, hb1, ofNat_pred _ (Nat.sub_pos_of_lt hj)]
          simp [mkWord, tagNop, Nat.sub_add_eq] at he
          exact he
        | error _ => exact fun h => h
        | diverge => exact fun h => h
      · rw [wrV_panic _ _ _ _ (by omega)]
        simp only [Res.bind_panic]
        simp [fillLoop, gx, ge, gs, gl, hj', hb, hx2', hx3, hb1]
    · have hj' : ¬ ((j : Int) < hi) := by omega
      rw [nopFillV_ge _ _ _ _ hj]
      refine ⟨e, ?_, fun _ _ _ => rfl⟩
      simp [fillLoop, gx, ge, hj']

/-- `skip := uint64(end - startO); for x := startO; x < end; x++ { … }` -/
def fillTail (x b : String) : List Stmt :=
  [.assign "skip" (.conv .u64 (.bin .sub (.v "end") (.v "startO"))), fillLoop x b [.assign x (.v "startO")]]

theorem fillTail_run (x b : String) (lim lo hi : Nat) (hx1 : x ≠ "end") (hx2 : x ≠ "skip") (hx3 : x ≠ b ++ ".lim")
    (hb1 : "skip" ≠ b ++ ".lim") (tape : Array UInt64) (e : Env) (fuel : Nat) (hlo : lo ≤ hi)
    (hf : min hi lim - lo + 3 ≤ fuel) (gs : e.get "startO" = some (.int lo)) (ge : e.get "end" = some (.int hi))
    (gl : e.get (b ++ ".lim") = some (.int lim)) :
    match Iter.nopFillV lim tape lo hi with
    | .ok t' => ∃ e', exec goFuns fuel (fillTail x b) ⟨e, tape⟩ = .normal ⟨e', t'⟩ ∧
        ∀ k, k ≠ x → k ≠ "skip" → e'.get k = e.get k
    | .panic => exec goFuns fuel (fillTail x b) ⟨e, tape⟩ = .panic
    | _ => False := by
  have hx1' : ¬ "end" = x := fun h => hx1 h.symm
  have hx2' : ¬ "skip" = x := fun h => hx2 h.symm
  obtain ⟨f, rfl⟩ : ∃ f, fuel = f + 2 := ⟨fuel - 2, by omega⟩
  have hsub : UInt64.ofInt ((hi : Int) - lo) = UInt64.ofNat (hi - lo) := by
    rw [← ofInt_natCast]; congr 1; omega
  have hrun := fill_run x b lim hi hx1 hx2 hx3 hb1 (min hi lim - lo + 1) lo tape
    ((e.set "skip" (.u64 (UInt64.ofNat (hi - lo)))).set x (.int lo)) (f + 1) (by omega) (by omega)
    (by simp) (by simp [hx1, hx1', ge]) (by simp [hx2, hx2']) (by simp [hx3, hb1, gl])
  have h1 : exec1 goFuns (f + 2) (.assign "skip" (.conv .u64 (.bin .sub (.v "end") (.v "startO")))) ⟨e, tape⟩ =
      .normal ⟨e.set "skip" (.u64 (UInt64.ofNat (hi - lo))), tape⟩ := by
    simp [gs, ge, hsub]
  have h2 : exec goFuns (f + 1) [.assign x (.v "startO")] ⟨e.set "skip" (.u64 (UInt64.ofNat (hi - lo))), tape⟩ =
      .normal ⟨(e.set "skip" (.u64 (UInt64.ofNat (hi - lo)))).set x (.int lo), tape⟩ := by
    simp [gs]
  have hstep : exec goFuns (f + 2) (fillTail x b) ⟨e, tape⟩ =
      exec1 goFuns (f + 1) (fillLoop x b []) ⟨(e.set "skip" (.u64 (UInt64.ofNat (hi - lo)))).set x (.int lo), tape⟩ := by
    simp only [fillTail]
    rw [exec, h1]
    simp only []
    rw [exec]
    simp only [fillLoop]
    rw [exec1, h2]
    simp only []
    generalize exec1 goFuns (f + 1) _ _ = out
    cases out <;> simp only [exec]
  rw [hstep]
  revert hrun
  cases Iter.nopFillV lim tape lo hi with
  | ok t' =>
    rintro ⟨e', he, hfr⟩
    refine ⟨e', he, ?_⟩
    intro k k1 k2
    rw [hfr k k1 k2, Env.get_set_ne _ _ (Ne.symm k1), Env.get_set_ne _ _ (Ne.symm k2)]
  | panic => exact fun h => h
  | error _ => exact fun h => h
  | diverge => exact fun h => h

/-! ## the model's fill against the view-checked one -/

theorem nopFill_lt (tape : Array UInt64) (lo hi : Nat) (h : lo < hi) :
    Iter.nopFill tape lo hi =
      (wr tape lo (mkWord tagNop (UInt64.ofNat (hi - lo))) >>= fun t => Iter.nopFill t (lo + 1) hi) := by
  rw [Iter.nopFill]; simp [h]

theorem nopFill_ge (tape : Array UInt64) (lo hi : Nat) (h : ¬ lo < hi) : Iter.nopFill tape lo hi = .ok tape := by
  rw [Iter.nopFill]; simp [h]

/-- a fill that ends inside the view: the check against the view and the check against the array agree -/
theorem nopFillV_eq_nopFill (lim : Nat) : ∀ (n lo hi : Nat) (tape : Array UInt64), hi - lo ≤ n → hi ≤ lim →
    Iter.nopFillV lim tape lo hi = Iter.nopFill tape lo hi := by
  intro n
  induction n with
  | zero =>
    intro lo hi tape h1 h2
    rw [nopFillV_ge _ _ _ _ (by omega), nopFill_ge _ _ _ (by omega)]
  | succ n ih =>
    intro lo hi tape h1 h2
    by_cases h : lo < hi
    · rw [nopFillV_lt _ _ _ _ h, nopFill_lt _ _ _ h]
      have hv : lo < lim := by omega
      simp only [Iter.wrV, hv, if_true]
      cases hw : wr tape lo (mkWord tagNop (UInt64.ofNat (hi - lo))) with
      | ok t => simp only [Res.bind_ok]; exact ih _ _ _ (by omega) h2
      | panic => rfl
      | error _ => rfl
      | diverge => rfl
    · rw [nopFillV_ge _ _ _ _ h, nopFill_ge _ _ _ h]

theorem nopFill_size : ∀ (n lo hi : Nat) (tape t' : Array UInt64), hi - lo ≤ n →
    Iter.nopFill tape lo hi = .ok t' → t'.size = tape.size := by
  intro n
  induction n with
  | zero =>
    intro lo hi tape t' h1 h
    rw [nopFill_ge _ _ _ (by omega)] at h
    cases h; rfl
  | succ n ih =>
    intro lo hi tape t' h1 h
    by_cases hlt : lo < hi
    · rw [nopFill_lt _ _ _ hlt] at h
      by_cases hs : lo < tape.size
      · rw [wr_ok _ _ _ hs] at h
        simp only [Res.bind_ok] at h
        rw [ih _ _ _ _ (by omega) h]; simp
      · rw [wr_panic _ _ _ (by omega)] at h; cases h
    · rw [nopFill_ge _ _ _ hlt] at h
      cases h; rfl

/-- a fill through a view that succeeds keeps the length of the array -/
theorem nopFillV_size (lim lo hi : Nat) (tape t' : Array UInt64) (h : Iter.nopFillV lim tape lo hi = .ok t') :
    t'.size = tape.size := by
  by_cases hlt : lo < hi
  · by_cases hv : hi ≤ lim
    · rw [nopFillV_eq_nopFill lim _ _ _ _ (Nat.le_refl _) hv] at h
      exact nopFill_size _ _ _ _ _ (Nat.le_refl _) h
    · rw [nopFillV_panic lim _ _ _ _ (Nat.le_refl _) hlt (by omega)] at h
      cases h
  · rw [nopFillV_ge _ _ _ _ hlt] at h
    cases h; rfl

/-! ## the model's `advance`: every live step moves the cursor forward -/

theorem advanceLoop_facts (pj : PJ) : ∀ (n : Nat) (i : Iter) (off : Nat), i.lim - off ≤ n →
    ∀ (i' : Iter) (b : Bool), Iter.advanceLoop pj i off = .ok (i', b) →
      i'.lim = i.lim ∧ (b = true → off < i'.off ∧ i'.off ≤ i.lim ∧
        ∃ w, pj.tape[i'.off - 1]? = some w ∧ i'.t = tagOf w ∧ i'.cur = payloadOf w ∧ tagOf w ≠ tagNop) := by
  intro n
  induction n with
  | zero =>
    intro i off hn i' b h
    rw [Iter.advanceLoop.eq_1 pj i off] at h
    have hge : off ≥ i.lim := by omega
    simp only [hge, dif_pos, Res.ok.injEq, Prod.mk.injEq] at h
    obtain ⟨rfl, rfl⟩ := h
    exact ⟨rfl, fun h => by cases h⟩
  | succ n ih =>
    intro i off hn i' b h
    rw [Iter.advanceLoop.eq_1 pj i off] at h
    by_cases hge : off ≥ i.lim
    · simp only [hge, dif_pos, Res.ok.injEq, Prod.mk.injEq] at h
      obtain ⟨rfl, rfl⟩ := h
      exact ⟨rfl, fun h => by cases h⟩
    · simp only [hge, dif_neg, not_false_eq_true, Iter.rdT, rd] at h
      cases hr : pj.tape[off]? with
      | none => rw [hr] at h; cases h
      | some v =>
        rw [hr] at h
        simp only [Res.bind_ok] at h
        by_cases hn' : tagOf v = tagNop
        · by_cases hz : payloadOf v = 0
          · simp [hn', hz, Iter.moveToEnd] at h
            obtain ⟨rfl, rfl⟩ := h
            exact ⟨rfl, fun h => by cases h⟩
          · have hz' := payload_toNat_ne v hz
            simp only [hn', hz, beq_self_eq_true, if_true, beq_iff_eq, if_false] at h
            obtain ⟨k1, k2⟩ := ih _ _ (by simp only; omega) i' b h
            refine ⟨k1, fun hb => ?_⟩
            obtain ⟨a, c, d⟩ := k2 hb
            exact ⟨by omega, c, d⟩
        · have hb : (tagOf v == tagNop) = false := by simp [hn']
          simp only [hb, Bool.false_eq_true, if_false, Res.ok.injEq, Prod.mk.injEq] at h
          obtain ⟨rfl, rfl⟩ := h
          refine ⟨rfl, fun _ => ⟨by simp, by simp; omega, v, by simpa using hr, rfl, rfl, hn'⟩⟩

/-- a step of `advance` that returns an element: where the cursor stands afterwards -/
theorem advance_facts (pj : PJ) (i : Iter) (h0 : 0 ≤ i.addNext) (i' : Iter) (t : UInt8)
    (h : i.advance pj = .ok (i', t)) (ht : t ≠ typeNone) :
    i'.lim = i.lim ∧ i.off + i.addNext.toNat < i'.off ∧ i'.off ≤ i.lim ∧ 0 ≤ i'.addNext ∧
      i.off + i.addNext.toNat < i.lim ∧ t = tagToType i'.t ∧
      ∃ w, pj.tape[i'.off - 1]? = some w ∧ i'.t = tagOf w ∧ i'.cur = payloadOf w ∧ tagOf w ≠ tagNop ∧
        i'.addNext = (Iter.calcNext { lim := i.lim, off := i'.off, addNext := 0, cur := payloadOf w, t := tagOf w }
          false).addNext := by
  unfold Iter.advance Iter.bump at h
  have ho : ¬ ((i.off : Int) + i.addNext < 0) := by omega
  simp only [ho, if_false, Res.bind_ok] at h
  have hnat : ((i.off : Int) + i.addNext).toNat = i.off + i.addNext.toNat := by omega
  rw [hnat] at h
  cases hg : Iter.advanceLoop pj i (i.off + i.addNext.toNat) with
  | ok r =>
    obtain ⟨a, l⟩ := r
    rw [hg] at h
    simp only [Res.bind_ok] at h
    obtain ⟨k1, k2⟩ := advanceLoop_facts pj _ i _ (Nat.le_refl _) a l hg
    cases l with
    | false =>
      simp at h
      exact absurd h.2.symm ht
    | true =>
      obtain ⟨p1, p2, w, p3, p4, p5, p6⟩ := k2 rfl
      obtain ⟨c1, c2, c3, c4⟩ := calcNext_fields a false
      simp only [Bool.not_true, Bool.false_eq_true, if_false] at h
      by_cases hneg : (a.calcNext false).addNext < 0
      · simp [hneg] at h
        exact absurd h.2.symm ht
      · simp only [hneg, if_false, Res.ok.injEq, Prod.mk.injEq] at h
        obtain ⟨rfl, rfl⟩ := h
        refine ⟨by rw [c1, k1], by rw [c2]; exact p1, by rw [c2]; exact p2, by omega, by omega, rfl,
          w, by rw [c2]; exact p3, by rw [c4]; exact p4, by rw [c3]; exact p5, p6, ?_⟩
        rw [c2]
        congr 1
        apply calcNext_congr <;> simp [k1, p4, p5]
  | panic => rw [hg] at h; cases h
  | error e => rw [hg] at h; cases h
  | diverge => rw [hg] at h; cases h

/-! ## stores of the loops: the local iterator, the buffers, the callback variables -/

/-- the caller's store after `pfx.Advance()` -/
def advEnv (e : Env) (pfx : String) (i' : Iter) (pj : PJ) : Env :=
  ((setIter e pfx i').set "Strings.B" (.bytes pj.strings)).set "Message" (.bytes pj.msg)

/-- the loops' invariant: the store holds the local iterator `pfx` and the document's buffers -/
structure ItInv (pj : PJ) (pfx : String) (i : Iter) (e : Env) : Prop where
  it : iterAt e pfx = some i
  sb : e.get "Strings.B" = some (.bytes pj.strings)
  ms : e.get "Message" = some (.bytes pj.msg)

def itKeys (pfx : String) : List String := "Strings.B" :: "Message" :: fieldsOf pfx

theorem ItInv.congr {pj : PJ} {pfx : String} {i : Iter} {e e' : Env} (h : ItInv pj pfx i e)
    (hk : ∀ k, k ∈ itKeys pfx → e'.get k = e.get k) : ItInv pj pfx i e' := by
  obtain ⟨h1, h2, h3⟩ := h
  refine ⟨?_, ?_, ?_⟩
  · rw [← h1]
    exact iterAt_congr _ _ _ (fun k hk' => hk k (by simp [itKeys, hk']))
  · rw [hk _ (by simp [itKeys]), h2]
  · rw [hk _ (by simp [itKeys]), h3]

theorem ItInv.set {pj : PJ} {pfx : String} {i : Iter} {e : Env} (h : ItInv pj pfx i e) (k : String) (x : Val)
    (hk : k ∉ itKeys pfx) : ItInv pj pfx i (e.set k x) := by
  apply h.congr
  intro k' hk'
  rw [Env.get_set_ne]
  intro hh
  subst hh
  exact hk hk'

theorem get_setIter_self (e : Env) (pfx : String) (j : Iter) (hd : (fieldsOf pfx).Nodup) :
    iterAt (setIter e pfx j) pfx = some j := by
  simp only [fieldsOf, List.nodup_cons, List.mem_cons, List.not_mem_nil, or_false, not_or, List.nodup_nil, and_true,
    not_false_eq_true] at hd
  obtain ⟨⟨a1, a2, a3, a4⟩, ⟨b1, b2, b3⟩, ⟨c1, c2⟩, d1⟩ := hd
  apply iterAt_of_gets <;> simp [setIter, Env.get_set, *]
  all_goals (first | exact fun h => absurd h.symm ‹_› | skip)

theorem ItInv.adv {pj : PJ} {pfx : String} {i : Iter} {e : Env} (h : ItInv pj pfx i e) (i' : Iter)
    (hd : (fieldsOf pfx).Nodup) (h1 : "Strings.B" ∉ fieldsOf pfx) (h2 : "Message" ∉ fieldsOf pfx) :
    ItInv pj pfx i' (advEnv e pfx i' pj) := by
  refine ⟨?_, ?_, ?_⟩
  · unfold advEnv
    rw [iterAt_set_ne _ _ _ _ h2, iterAt_set_ne _ _ _ _ h1]
    exact get_setIter_self _ _ _ hd
  · simp [advEnv, Env.get_set]
  · simp [advEnv, Env.get_set]

theorem get_advEnv (e : Env) (pfx : String) (i' : Iter) (pj : PJ) (k : String) (hk : k ∉ itKeys pfx) :
    (advEnv e pfx i' pj).get k = e.get k := by
  simp only [itKeys, List.mem_cons, not_or] at hk
  obtain ⟨k1, k2, k3⟩ := hk
  unfold advEnv
  rw [Env.get_set_ne _ _ (Ne.symm k2), Env.get_set_ne _ _ (Ne.symm k1)]
  exact get_setIter_ne _ _ _ _ (by simpa [fieldsOf] using k3)

/-- `tgt = pfx.Advance()` as a statement -/
theorem exec1_advance (pj : PJ) (s : St) (tgt pfx : String) (htgt : (tgt == "_") = false) (i : Iter) (f : Nat)
    (hl : i.lim ≤ pj.tape.size) (ht : s.tape = pj.tape) (h : ItInv pj pfx i s.env) (hf : i.lim + 3 ≤ f) :
    match i.advance pj with
    | .ok (i', t) => exec1 goFuns (f + 1) (.callAssign [tgt] pfx "Iter.Advance" [] []) s =
        .normal ⟨(advEnv s.env pfx i' pj).set tgt (.u8 t), pj.tape⟩
    | .panic => exec1 goFuns (f + 1) (.callAssign [tgt] pfx "Iter.Advance" [] []) s = .panic
    | _ => False := by
  have hc := callFun_advance pj s pfx i f hl ht h.it h.sb h.ms hf
  revert hc
  cases i.advance pj with
  | ok r =>
    obtain ⟨i', t⟩ := r
    intro hc
    simp only [] at hc ⊢
    rw [exec1, hc]
    simp [assignTargets, htgt, advEnv]
  | panic => intro hc; simp only [] at hc ⊢; rw [exec1, hc]
  | error _ => exact fun h => h
  | diverge => exact fun h => h

/-- the callback log -/
def logOf (e : Env) : List Int := match e.get "fn.log" with | some (.ints l) => l | _ => []

theorem logOf_congr {e e' : Env} (h : e'.get "fn.log" = e.get "fn.log") : logOf e' = logOf e := by
  unfold logOf; rw [h]

theorem logOf_set (e : Env) (l : List Int) : logOf (e.set "fn.log" (.ints l)) = l := by
  simp [logOf, Env.get_set]

/-- what the log records of an iterator handed to a callback -/
def encIter (i : Iter) : List Int := [i.off, i.addNext, i.cur.toNat, i.t.toNat, i.lim]

theorem exec1_cb_i (e : Env) (tape : Array UInt64) (fuel : Nat) (i : Iter) (hI : iterAt e "i" = some i) :
    exec1 goFuns fuel (.cb "_" "fn" [.v "i.off", .v "i.addNext", .v "i.cur", .v "i.t", .v "i.lim"]) ⟨e, tape⟩ =
      .normal ⟨e.set "fn.log" (.ints (logOf e ++ encIter i)), tape⟩ := by
  obtain ⟨g1, g2, g3, g4, g5⟩ := iterAt_get_i _ _ hI
  simp [g1, g2, g3, g4, g5, valToInt, logOf, encIter]
  rfl

theorem exec1_cbq_i (e : Env) (tape : Array UInt64) (fuel : Nat) (i : Iter) (r : Bool) (rest : List Bool)
    (hI : iterAt e "i" = some i) (hR : e.get "fn.results" = some (.bools (r :: rest))) :
    exec1 goFuns fuel (.cb "#fn" "fn" [.v "i.off", .v "i.addNext", .v "i.cur", .v "i.t", .v "i.lim"]) ⟨e, tape⟩ =
      .normal ⟨((e.set "fn.log" (.ints (logOf e ++ encIter i))).set "fn.results" (.bools rest)).set "#fn" (.bool r),
        tape⟩ := by
  obtain ⟨g1, g2, g3, g4, g5⟩ := iterAt_get_i _ _ hI
  simp [g1, g2, g3, g4, g5, hR, valToInt, logOf, encIter]
  rfl

/-! ## `Object.ForEach` / `Object.DeleteElems`: the pieces of the loop body, on any store -/

theorem iterAt_get_tmp (e : Env) (i : Iter) (h : iterAt e "tmp" = some i) :
    e.get "tmp.off" = some (.int i.off) ∧ e.get "tmp.addNext" = some (.int i.addNext) ∧
    e.get "tmp.cur" = some (.u64 i.cur) ∧ e.get "tmp.t" = some (.u8 i.t) ∧ e.get "tmp.lim" = some (.int i.lim) :=
  iterAt_get e "tmp" i h

/-- what the log records of a callback `fn(name, tmp)`: the length of the name, then the iterator -/
def encNI (p : Bytes × Iter) : List Int := (p.1.size : Int) :: encIter p.2

def cbLogsTmp : List Expr :=
  [.v "name", .v "tmp.off", .v "tmp.addNext", .v "tmp.cur", .v "tmp.t", .v "tmp.lim"]

theorem exec1_cb_tmp (e : Env) (tape : Array UInt64) (fuel : Nat) (i : Iter) (name : Bytes)
    (hI : iterAt e "tmp" = some i) (hn : e.get "name" = some (.bytes name)) :
    exec1 goFuns fuel (.cb "_" "fn" cbLogsTmp) ⟨e, tape⟩ =
      .normal ⟨e.set "fn.log" (.ints (logOf e ++ encNI (name, i))), tape⟩ := by
  obtain ⟨g1, g2, g3, g4, g5⟩ := iterAt_get_tmp _ _ hI
  simp [cbLogsTmp, g1, g2, g3, g4, g5, hn, valToInt, logOf, encIter, encNI]
  rfl

theorem exec1_cbq_tmp (e : Env) (tape : Array UInt64) (fuel : Nat) (i : Iter) (name : Bytes) (r : Bool)
    (rest : List Bool) (hI : iterAt e "tmp" = some i) (hn : e.get "name" = some (.bytes name))
    (hR : e.get "fn.results" = some (.bools (r :: rest))) :
    exec1 goFuns fuel (.cb "#fn" "fn" cbLogsTmp) ⟨e, tape⟩ =
      .normal ⟨((e.set "fn.log" (.ints (logOf e ++ encNI (name, i)))).set "fn.results" (.bools rest)).set "#fn"
        (.bool r), tape⟩ := by
  obtain ⟨g1, g2, g3, g4, g5⟩ := iterAt_get_tmp _ _ hI
  simp [cbLogsTmp, g1, g2, g3, g4, g5, hn, hR, valToInt, logOf, encIter, encNI]
  rfl

/-- `typ := tmp.Advance(); if typ != TypeString || tmp.off+1 >= len(tmp.tape.Tape) { … return }` -/
def objHeadA : List Stmt := [
  .callAssign ["typ"] "tmp" "Iter.Advance" [] [],
  .ite (.lor (.bin .ne (.v "typ") (.u8 2 /- TypeString -/)) (.bin .ge (.bin .add (.v "tmp.off") (.int 1)) (.lenTape "tmp"))) [
    .ite (.bin .eq (.v "typ") (.u8 0 /- TypeNone -/)) [
      .ret [(.bool false /- nil -/)]] [],
    .ret [(.bool true)]] []]

theorem objHeadA_run (pj : PJ) (e : Env) (tmp : Iter) (f : Nat) (rest : List Stmt) (inv : ItInv pj "tmp" tmp e)
    (hl : tmp.lim ≤ pj.tape.size) (hf : tmp.lim + 3 ≤ f) :
    match tmp.advance pj with
    | .ok (tmp1, typ) =>
      exec goFuns (f + 1) (objHeadA ++ rest) ⟨e, pj.tape⟩ =
        if typ ≠ typeString ∨ tmp1.off + 1 ≥ tmp1.lim then
          .ret ⟨(advEnv e "tmp" tmp1 pj).set "typ" (.u8 typ), pj.tape⟩ [.bool (!(typ == typeNone))]
        else exec goFuns (f + 1) rest ⟨(advEnv e "tmp" tmp1 pj).set "typ" (.u8 typ), pj.tape⟩
    | .panic => exec goFuns (f + 1) (objHeadA ++ rest) ⟨e, pj.tape⟩ = .panic
    | _ => False := by
  have hA := exec1_advance pj ⟨e, pj.tape⟩ "typ" "tmp" rfl tmp f hl rfl inv hf
  revert hA
  cases tmp.advance pj with
  | ok r =>
    obtain ⟨tmp1, typ⟩ := r
    intro hA
    simp only [] at hA ⊢
    have inv1 : ItInv pj "tmp" tmp1 ((advEnv e "tmp" tmp1 pj).set "typ" (.u8 typ)) :=
      (inv.adv tmp1 (by decide) (by decide) (by decide)).set _ _ (by decide)
    have hT : ((advEnv e "tmp" tmp1 pj).set "typ" (.u8 typ)).get "typ" = some (.u8 typ) := Env.get_set_self _ _ _
    simp only [objHeadA, List.cons_append, List.nil_append]
    rw [exec, hA]
    simp only []
    rw [exec]
    generalize (advEnv e "tmp" tmp1 pj).set "typ" (.u8 typ) = E1 at inv1 hT ⊢
    obtain ⟨g1, g2, g3, g4, g5⟩ := iterAt_get_tmp _ _ inv1.it
    by_cases h1 : typ = typeString
    · have hb1 : (typ != 2) = false := by simp [h1, typeString]
      by_cases h2 : tmp1.off + 1 ≥ tmp1.lim
      · have h2' : (tmp1.lim : Int) ≤ tmp1.off + 1 := by omega
        have hn : (typ == typeNone) = false := by rw [h1]; decide
        have hn' : (typ == 0) = false := by rw [h1]; decide
        simp [h1, h2, h2', hb1, hn, hn', g1, g5, hT, typeString, typeNone]
      · have h2' : ¬ (tmp1.lim : Int) ≤ tmp1.off + 1 := by omega
        simp [h1, h2, h2', hb1, g1, g5, hT, typeString]
    · have hb1 : (typ != 2) = true := by simpa [typeString] using h1
      by_cases hn : typ = typeNone
      · subst hn
        simp [hb1, typeNone, typeString, hT]
      · have hn' : (typ == 0) = false := by simpa [typeNone] using hn
        have hn'' : (typ == typeNone) = false := by simpa using hn
        simp [h1, hb1, hn, hn', hn'', hT]
  | panic =>
    intro hA
    simp only [] at hA ⊢
    simp only [objHeadA, List.cons_append, List.nil_append]
    rw [exec, hA]
  | error _ => exact fun h => h
  | diverge => exact fun h => h

/-- `offset := tmp.cur; length := tmp.tape.Tape[tmp.off]; name, err := tmp.tape.stringByteAt(offset, length);
    if err != nil { return … }` -/
def objHeadB : List Stmt := [
  .assign "offset" (.v "tmp.cur"),
  .assign "length" (.tapeAt "tmp" (.v "tmp.off")),
  .callAssign ["name", "err"] "tmp" "ParsedJson.stringByteAt" [] [(.v "offset"), (.v "length")],
  .ite (.bin .ne (.v "err") (.bool false /- nil -/)) [
    .ret [(.bool true)]] []]

def headBKeys : List String := ["offset", "length", "name", "err", "tmp.lim", "Strings.B", "Message"]

theorem objHeadB_run (pj : PJ) (e : Env) (tmp1 : Iter) (f : Nat) (rest : List Stmt) (hb : BufOK pj)
    (inv : ItInv pj "tmp" tmp1 e) (hl : tmp1.lim ≤ pj.tape.size) (h2 : tmp1.off + 1 < tmp1.lim) :
    ∃ w, pj.tape[tmp1.off]? = some w ∧
      match stringByteAt pj tmp1.cur w with
      | .ok name => ∃ e', exec goFuns (f + 1) (objHeadB ++ rest) ⟨e, pj.tape⟩ = exec goFuns (f + 1) rest ⟨e', pj.tape⟩ ∧
          ItInv pj "tmp" tmp1 e' ∧ e'.get "name" = some (.bytes name) ∧ ∀ k, k ∉ headBKeys → e'.get k = e.get k
      | _ => ∃ e', exec goFuns (f + 1) (objHeadB ++ rest) ⟨e, pj.tape⟩ = .ret ⟨e', pj.tape⟩ [.bool true] := by
  obtain ⟨g1, g2, g3, g4, g5⟩ := iterAt_get_tmp _ _ inv.it
  have hlt : tmp1.off < pj.tape.size := by omega
  refine ⟨pj.tape[tmp1.off], by simp [hlt], ?_⟩
  generalize hw : pj.tape[tmp1.off] = w
  have hr : pj.tape[tmp1.off]? = some w := by simp [hlt, hw]
  have hs1 : exec1 goFuns (f + 1) (.assign "offset" (.v "tmp.cur")) ⟨e, pj.tape⟩ =
      .normal ⟨e.set "offset" (.u64 tmp1.cur), pj.tape⟩ := by simp [g3]
  have hs2 : exec1 goFuns (f + 1) (.assign "length" (.tapeAt "tmp" (.v "tmp.off")))
      ⟨e.set "offset" (.u64 tmp1.cur), pj.tape⟩ =
      .normal ⟨(e.set "offset" (.u64 tmp1.cur)).set "length" (.u64 w), pj.tape⟩ := by
    have : (tmp1.off : Int) < tmp1.lim := by omega
    simp [g1, g5, this, hr]
  generalize hE2 : (e.set "offset" (.u64 tmp1.cur)).set "length" (.u64 w) = E2 at hs2
  have inv2 : ItInv pj "tmp" tmp1 E2 := by
    subst hE2; exact (inv.set _ _ (by decide)).set _ _ (by decide)
  have hfr2 : ∀ k, k ≠ "offset" → k ≠ "length" → E2.get k = e.get k := by
    intro k k1 k2
    subst hE2
    rw [Env.get_set_ne _ _ (Ne.symm k2), Env.get_set_ne _ _ (Ne.symm k1)]
  have hcall := callFun_sb ⟨E2, pj.tape⟩ pj "tmp" tmp1.lim (.v "offset") (.v "length") tmp1.cur w f hb
    (by simpa using (iterAt_get_tmp _ _ inv2.it).2.2.2.2) inv2.sb inv2.ms
    (by subst hE2; simp) (by subst hE2; simp)
  simp only [String.reduceAppend] at hcall
  simp only [objHeadB, List.cons_append, List.nil_append]
  rw [exec, hs1]
  simp only []
  rw [exec, hs2]
  simp only []
  rw [exec, exec1, hcall]
  have hne1 : ("name" == "_") = false := by decide
  have hne2 : ("err" == "_") = false := by decide
  rcases stringByteAt_cases pj tmp1.cur w with ⟨name, hn⟩ | hn
  · rw [hn]
    simp only [sbVals, assignTargets, hne1, hne2, Bool.false_eq_true, if_false]
    refine ⟨((((E2.set "tmp.lim" (.int tmp1.lim)).set "Strings.B" (.bytes pj.strings)).set "Message"
      (.bytes pj.msg)).set "name" (.bytes name)).set "err" (.bool false), ?_, ?_, ?_, ?_⟩
    · simp [Env.get_set]
    · refine ItInv.congr inv2 (fun k hk => ?_)
      simp only [itKeys, fieldsOf, List.mem_cons, List.not_mem_nil, or_false, String.reduceAppend] at hk
      rcases hk with rfl | rfl | rfl | rfl | rfl | rfl | rfl <;>
        simp [Env.get_set, inv2.sb, inv2.ms, (iterAt_get_tmp _ _ inv2.it).2.2.2.2]
    · simp [Env.get_set]
    · intro k hk
      simp only [headBKeys, List.mem_cons, List.not_mem_nil, or_false, not_or] at hk
      obtain ⟨k1, k2, k3, k4, k5, k6, k7⟩ := hk
      rw [Env.get_set_ne _ _ (Ne.symm k4), Env.get_set_ne _ _ (Ne.symm k3), Env.get_set_ne _ _ (Ne.symm k7),
        Env.get_set_ne _ _ (Ne.symm k6), Env.get_set_ne _ _ (Ne.symm k5)]
      exact hfr2 k k1 k2
  · rw [hn]
    simp only [sbVals, assignTargets, hne1, hne2, Bool.false_eq_true, if_false]
    refine ⟨((((E2.set "tmp.lim" (.int tmp1.lim)).set "Strings.B" (.bytes pj.strings)).set "Message"
      (.bytes pj.msg)).set "name" (.bytes #[])).set "err" (.bool true), ?_⟩
    simp [Env.get_set]

/-- `t := tmp.Advance(); if t == TypeNone { return nil }` -/
def objValue : List Stmt := [
  .callAssign ["t"] "tmp" "Iter.Advance" [] [],
  .ite (.bin .eq (.v "t") (.u8 0 /- TypeNone -/)) [
    .ret [(.bool false /- nil -/)]] []]

theorem objValue_run (pj : PJ) (e : Env) (tmp1 : Iter) (f : Nat) (rest : List Stmt) (inv : ItInv pj "tmp" tmp1 e)
    (hl : tmp1.lim ≤ pj.tape.size) (hf : tmp1.lim + 3 ≤ f) :
    match tmp1.advance pj with
    | .ok (tmp2, t) =>
      exec goFuns (f + 1) (objValue ++ rest) ⟨e, pj.tape⟩ =
        if t = typeNone then .ret ⟨(advEnv e "tmp" tmp2 pj).set "t" (.u8 t), pj.tape⟩ [.bool false]
        else exec goFuns (f + 1) rest ⟨(advEnv e "tmp" tmp2 pj).set "t" (.u8 t), pj.tape⟩
    | .panic => exec goFuns (f + 1) (objValue ++ rest) ⟨e, pj.tape⟩ = .panic
    | _ => False := by
  have hA := exec1_advance pj ⟨e, pj.tape⟩ "t" "tmp" rfl tmp1 f hl rfl inv hf
  revert hA
  cases tmp1.advance pj with
  | ok r =>
    obtain ⟨tmp2, t⟩ := r
    intro hA
    simp only [] at hA ⊢
    have hT : ((advEnv e "tmp" tmp2 pj).set "t" (.u8 t)).get "t" = some (.u8 t) := Env.get_set_self _ _ _
    simp only [objValue, List.cons_append, List.nil_append]
    rw [exec, hA]
    simp only []
    rw [exec]
    generalize (advEnv e "tmp" tmp2 pj).set "t" (.u8 t) = E1 at hT ⊢
    by_cases hn : t = typeNone
    · subst hn
      simp [typeNone, hT]
    · have hn' : (t == 0) = false := by simpa [typeNone] using hn
      simp [hn, hn', hT]
  | panic =>
    intro hA
    simp only [] at hA ⊢
    simp only [objValue, List.cons_append, List.nil_append]
    rw [exec, hA]
  | error _ => exact fun h => h
  | diverge => exact fun h => h

/-- `if len(onlyKeys) > 0 { if _, ok := onlyKeys[string(name)]; !ok { t := tmp.Advance(); if t == TypeNone { return nil };
    continue } }` -/
def objFilter : Stmt :=
  .ite (.bin .gt (.lenK (.v "onlyKeys")) (.int 0)) [
    .assign "ok" (.inK (.v "onlyKeys") (.v "name")),
    .ite (.not (.v "ok")) [
      .callAssign ["t"] "tmp" "Iter.Advance" [] [],
      .ite (.bin .eq (.v "t") (.u8 0 /- TypeNone -/)) [
        .ret [(.bool false /- nil -/)]] [],
      .cont] []] []

theorem objFilter_run (pj : PJ) (e : Env) (tmp1 : Iter) (name : Bytes) (ks : List Bytes) (f : Nat) (rest : List Stmt)
    (inv : ItInv pj "tmp" tmp1 e) (hn : e.get "name" = some (.bytes name)) (hk : e.get "onlyKeys" = some (.keys ks))
    (hl : tmp1.lim ≤ pj.tape.size) (hf : tmp1.lim + 3 ≤ f) :
    if ks.length > 0 ∧ (!ks.contains name) = true then
      match tmp1.advance pj with
      | .ok (tmp2, t) =>
        exec goFuns (f + 1) (objFilter :: rest) ⟨e, pj.tape⟩ =
          if t = typeNone then
            .ret ⟨(advEnv (e.set "ok" (.bool false)) "tmp" tmp2 pj).set "t" (.u8 t), pj.tape⟩ [.bool false]
          else .cont ⟨(advEnv (e.set "ok" (.bool false)) "tmp" tmp2 pj).set "t" (.u8 t), pj.tape⟩
      | .panic => exec goFuns (f + 1) (objFilter :: rest) ⟨e, pj.tape⟩ = .panic
      | _ => False
    else ∃ e', exec goFuns (f + 1) (objFilter :: rest) ⟨e, pj.tape⟩ = exec goFuns (f + 1) rest ⟨e', pj.tape⟩ ∧
      ∀ k, k ≠ "ok" → e'.get k = e.get k := by
  have hassign : exec1 goFuns (f + 1) (.assign "ok" (.inK (.v "onlyKeys") (.v "name"))) ⟨e, pj.tape⟩ =
      .normal ⟨e.set "ok" (.bool (ks.contains name)), pj.tape⟩ := by simp [hk, hn]
  by_cases hlen : ks.length > 0
  · have hlen' : (0 : Int) < ks.length := by omega
    have hopen : exec goFuns (f + 1) (objFilter :: rest) ⟨e, pj.tape⟩ =
        match (match exec1 goFuns (f + 1) (.ite (.not (.v "ok")) (objValue ++ [.cont]) [])
            ⟨e.set "ok" (.bool (ks.contains name)), pj.tape⟩ with
          | .normal s' => exec goFuns (f + 1) [] s'
          | o => o) with
        | .normal s' => exec goFuns (f + 1) rest s'
        | o => o := by
      rw [exec, objFilter, exec1]
      simp only [evalE, hk, hlen', binop, decide_true]
      rw [exec, hassign]
      simp only []
      rw [exec]
      rfl
    rw [hopen]
    cases hc : ks.contains name with
    | false =>
      have hcond : ks.length > 0 ∧ (!false) = true := ⟨hlen, rfl⟩
      rw [if_pos hcond]
      have inv1 : ItInv pj "tmp" tmp1 (e.set "ok" (.bool false)) := inv.set _ _ (by decide)
      have hV := objValue_run pj (e.set "ok" (.bool false)) tmp1 f [.cont] inv1 hl hf
      have hite : exec1 goFuns (f + 1) (.ite (.not (.v "ok")) (objValue ++ [.cont]) [])
          ⟨e.set "ok" (.bool false), pj.tape⟩ = exec goFuns (f + 1) (objValue ++ [.cont]) ⟨e.set "ok" (.bool false), pj.tape⟩ := by
        rw [exec1]
        simp only [evalE, Env.get_set_self, Bool.not_false]
      rw [hite]
      revert hV
      cases tmp1.advance pj with
      | ok r =>
        obtain ⟨tmp2, t⟩ := r
        intro hV
        simp only [] at hV ⊢
        rw [hV]
        by_cases ht : t = typeNone
        · simp [ht]
        · simp [ht]
      | panic =>
        intro hV
        simp only [] at hV ⊢
        rw [hV]
      | error _ => exact fun h => h
      | diverge => exact fun h => h
    | true =>
      have hcond : ¬ (ks.length > 0 ∧ (!true) = true) := by simp
      rw [if_neg hcond]
      refine ⟨e.set "ok" (.bool true), ?_, fun k hk' => Env.get_set_ne _ _ (Ne.symm hk')⟩
      have hite : exec1 goFuns (f + 1) (.ite (.not (.v "ok")) (objValue ++ [.cont]) [])
          ⟨e.set "ok" (.bool true), pj.tape⟩ = .normal ⟨e.set "ok" (.bool true), pj.tape⟩ := by
        rw [exec1]
        simp only [evalE, Env.get_set_self, Bool.not_true, exec]
      rw [hite]
      simp only [exec]
  · have hcond : ¬ (ks.length > 0 ∧ (!ks.contains name) = true) := fun h => hlen h.1
    have hlen' : ¬ (0 : Int) < ks.length := by omega
    rw [if_neg hcond]
    refine ⟨e, ?_, fun _ _ => rfl⟩
    rw [exec, objFilter, exec1]
    simp only [evalE, hk, hlen', binop, decide_false, exec]

end SJ.GoDelete
