import SJ.Model.SerializeEnc
import SJ.Proofs.SerdeRT
/-
C11 (byte level) — `Deserialize` reads back exactly what `Serialize` wrote: the framing layer between
`SerdeRT` (sections-level round trip) and `Rebuild` (no panic).

  1. `Seg b p l`: the bytes `l` stand in `b` at position `p` (the only notion of "embedded in a buffer" used below);
  2. `uvRec`: the `for` loop of the model's `readUvarint` as a structural recursion, `readUvarint_rec` proves
     the model function equal to it (via `Rebuild.readUvarint_eq`);
  3. `readUvarint_seg` / `readUvarint_putUvarint`: uvarint round trip, `putUvarint_length_le_ten`;
  4. `decBlock_seg` / `decBlock_blkRaw` / `decBlock_codec`: block round trip under the per-block contract `BlkOK`
     (stored block, or S2/zstd block that the codec decompresses);
  5. `deserialize_frames`: `deserialize` when every field reads back;
  6. `encode_layout`: every field of `encodeSections blk sec` reads back, and the total-size field passes its test;
  7. `deserialize_encode_blk`, `deserialize_encode`, `deserialize_encode_codec`, `sectionsOfRaw_encode`;
  8. `serLoop_sizes`, `serialize_deserialize`: end to end on bytes for every well-formed tape;
  9. a concrete instance.
All theorems are about the model functions `readUvarint`, `decBlock`, `deserialize`, `encodeSections`,
`sectionsOfRaw`, `serialize` themselves.
-/
set_option linter.unusedSimpArgs false
set_option linter.unusedVariables false
namespace SJ.Framing
open SJ SJ.Generated SJ.Rebuild

-- 1. segments of a byte array ---------------------------------------------------------------------------------

/-- the bytes `l` stand in `b` at position `p` -/
def Seg (b : Bytes) (p : Nat) (l : List UInt8) : Prop := ∀ k, k < l.length → b[p + k]? = l[k]?

theorem seg_self (b : Bytes) : Seg b 0 b.toList := by
  intro k hk
  simp only [Nat.zero_add, Array.getElem?_toList]

theorem seg_append {b : Bytes} {p : Nat} {l1 l2 : List UInt8} (h : Seg b p (l1 ++ l2)) :
    Seg b p l1 ∧ Seg b (p + l1.length) l2 := by
  constructor
  · intro k hk
    have := h k (by simp only [List.length_append]; omega)
    rw [this, List.getElem?_append_left hk]
  · intro k hk
    have := h (l1.length + k) (by simp only [List.length_append]; omega)
    rw [List.getElem?_append_right (by omega)] at this
    rw [Nat.add_assoc, this]
    congr 1; omega

theorem seg_cons {b : Bytes} {p : Nat} {a : UInt8} {l : List UInt8} (h : Seg b p (a :: l)) :
    b[p]? = some a ∧ Seg b (p + 1) l := by
  have := seg_append (l1 := [a]) (l2 := l) h
  refine ⟨?_, this.2⟩
  have := this.1 0 (by simp)
  simpa using this

theorem seg_size {b : Bytes} {p : Nat} {l : List UInt8} (h : Seg b p l) (hl : 0 < l.length) :
    p + l.length ≤ b.size := by
  have := h (l.length - 1) (by omega)
  rw [List.getElem?_eq_getElem (by omega)] at this
  have := (Array.getElem?_eq_some_iff.mp this).1
  omega

theorem seg_getD {b : Bytes} {p : Nat} {a : UInt8} (h : b[p]? = some a) : b.getD p 0 = a := by
  have ⟨h1, h2⟩ := Array.getElem?_eq_some_iff.mp h
  simp only [Array.getD, h1, dite_true]
  exact h2

theorem seg_extract {b : Bytes} {p : Nat} {l : List UInt8} (h : Seg b p l) :
    b.extract p (p + l.length) = l.toArray := by
  apply Array.ext_getElem?
  intro i
  by_cases hi : i < l.length
  · have := seg_size h (by omega)
    rw [Array.getElem?_extract, if_pos (by omega), h i hi]
    simp
  · rw [Array.getElem?_extract, if_neg (by omega)]
    simp only [List.getElem?_toArray]
    rw [List.getElem?_eq_none (by omega)]

theorem seg_embed (pre post : Bytes) (l : List UInt8) : Seg (pre ++ l.toArray ++ post) pre.size l := by
  intro k hk
  rw [Array.getElem?_append_left (by simp; omega), Array.getElem?_append_right (by omega)]
  simp

-- 2. `readUvarint` as a recursion ------------------------------------------------------------------------------

/-- the loop of `readUvarint`, `n` iterations left, as a structural recursion -/
def uvRec (b : Bytes) (pos : Nat) : (n i : Nat) → (x : UInt64) → (s : Nat) → Option (UInt64 × Nat)
  | 0, _, _, _ => none
  | n + 1, i, x, s =>
    if pos + i ≥ b.size then none
    else if b.getD (pos + i) 0 < 128 then
      if (i == 9) = true ∧ b.getD (pos + i) 0 > 1 then none
      else some (x ||| (b.getD (pos + i) 0).toUInt64 <<< UInt64.ofNat s, pos + i + 1)
    else uvRec b pos n (i + 1) (x ||| (b.getD (pos + i) 0 &&& 127).toUInt64 <<< UInt64.ofNat s) (s + 7)

theorem forIn_uvBody (b : Bytes) (pos : Nat) : ∀ (n i : Nat) (x : UInt64) (s : Nat),
    (match (forIn (m := Id) (List.range' i n) ((none, x, s) : UvState) (uvBody b pos)).run.1 with
      | some r => r
      | none => none) = uvRec b pos n i x s := by
  intro n
  induction n with
  | zero => intro i x s; rfl
  | succ n ih =>
    intro i x s
    rw [List.range'_succ, List.forIn_cons, uvRec]
    unfold uvBody
    by_cases c1 : pos + i ≥ b.size
    · simp only [if_pos c1]; rfl
    simp only [if_neg c1]
    by_cases c2 : b.getD (pos + i) 0 < 128
    · simp only [if_pos c2]
      by_cases c3 : (i == 9) = true ∧ b.getD (pos + i) 0 > 1
      · simp only [if_pos c3]; rfl
      · simp only [if_neg c3]; rfl
    · simp only [if_neg c2]
      exact ih (i + 1) _ _

/-- the model's `readUvarint` is the recursion `uvRec` -/
theorem readUvarint_rec (b : Bytes) (pos : Nat) : readUvarint b pos = uvRec b pos 10 0 0 0 := by
  rw [readUvarint_eq]; exact forIn_uvBody b pos 10 0 0 0

-- 3. `readUvarint` reads what `putUvarint` wrote --------------------------------------------------------------

theorem putUvarint_lt {x : Nat} (h : x < 128) : putUvarint x = [UInt8.ofNat x] := by
  rw [putUvarint]; simp only [h, dite_true]

theorem putUvarint_ge {x : Nat} (h : ¬ x < 128) :
    putUvarint x = UInt8.ofNat (x % 128 + 128) :: putUvarint (x / 128) := by
  rw [putUvarint]; simp only [h, dite_false]

theorem putUvarint_length_pos (x : Nat) : 1 ≤ (putUvarint x).length := by
  by_cases h : x < 128
  · rw [putUvarint_lt h]; simp
  · rw [putUvarint_ge h]; simp

/-- a value below `2^(7k)` takes at most `k` bytes -/
theorem putUvarint_length_le : ∀ (k x : Nat), 1 ≤ k → x < 2^(7*k) → (putUvarint x).length ≤ k := by
  intro k
  induction k with
  | zero => intro x h; omega
  | succ k ih =>
    intro x _ hx
    by_cases h : x < 128
    · rw [putUvarint_lt h]; simp
    · rw [putUvarint_ge h]
      simp only [List.length_cons]
      have e : 2^(7*(k+1)) = 2^(7*k) * 128 := by rw [Nat.mul_succ, Nat.pow_add]
      rw [e] at hx
      have hk : 1 ≤ k := by
        cases k with
        | zero => simp at hx; omega
        | succ k => omega
      have := ih (x / 128) hk (by rw [Nat.div_lt_iff_lt_mul (by decide)]; exact hx)
      omega

/-- **`PutUvarint` writes between 1 and 10 bytes for a 64-bit value** -/
theorem putUvarint_length_le_ten {x : Nat} (h : x < 2^64) : (putUvarint x).length ≤ 10 :=
  putUvarint_length_le 10 x (by decide) (Nat.lt_of_lt_of_le h (by decide))

theorem or_shift (x : UInt64) (c : UInt8) (s : Nat) (hs : s < 64) (hx : x.toNat < 2^s) (hc : c.toNat * 2^s < 2^64) :
    (x ||| c.toUInt64 <<< UInt64.ofNat s).toNat = x.toNat + c.toNat * 2^s := by
  have e : (UInt64.ofNat s).toNat % 64 = s := by simp only [UInt64.toNat_ofNat']; omega
  simp only [UInt64.toNat_or, UInt64.toNat_shiftLeft, UInt8.toNat_toUInt64, e]
  rw [Nat.shiftLeft_eq, Nat.mod_eq_of_lt hc, Nat.or_comm, ← Nat.shiftLeft_eq, ← Nat.shiftLeft_add_eq_or_of_lt hx,
    Nat.shiftLeft_eq]
  omega

theorem split128 (v P : Nat) : v * P = v % 128 * P + v / 128 * (P * 128) := by
  have hv : v = v / 128 * 128 + v % 128 := by omega
  calc v * P = (v / 128 * 128 + v % 128) * P := by rw [← hv]
    _ = v % 128 * P + v / 128 * (P * 128) := by
      rw [Nat.add_mul, Nat.mul_assoc, Nat.mul_comm 128 P]; omega

theorem uvRec_put (b : Bytes) (pos : Nat) : ∀ (n v i : Nat) (x : UInt64), i ≤ 9 → x.toNat < 2^(7*i) →
    x.toNat + v * 2^(7*i) < 2^64 → (putUvarint v).length ≤ n → Seg b (pos + i) (putUvarint v) →
    uvRec b pos n i x (7*i) = some (UInt64.ofNat (x.toNat + v * 2^(7*i)), pos + i + (putUvarint v).length) := by
  intro n
  induction n with
  | zero => intro v i x _ _ _ hl _; have := putUvarint_length_pos v; omega
  | succ n ih =>
    intro v i x hi hx hv hl hseg
    have hP : 0 < 2^(7*i) := Nat.two_pow_pos _
    rw [uvRec]
    by_cases h : v < 128
    · rw [putUvarint_lt h] at hseg ⊢
      obtain ⟨h0, _⟩ := seg_cons hseg
      have hsz := (Array.getElem?_eq_some_iff.mp h0).1
      have hc : (UInt8.ofNat v).toNat = v := by simp only [UInt8.toNat_ofNat']; omega
      rw [if_neg (by omega), seg_getD h0, if_pos (by rw [UInt8.lt_iff_toNat_lt, hc]; exact h), if_neg]
      · simp only [List.length_cons, List.length_nil, Option.some.injEq, Prod.mk.injEq, and_true]
        apply UInt64.toNat_inj.mp
        rw [or_shift x _ (7*i) (by omega) hx (by rw [hc]; omega), hc, SerdeRT.toNat_ofNat_lt hv]
      · rintro ⟨h9, hgt⟩
        have h9 : i = 9 := by simpa using h9
        subst h9
        have hgt' : (1 : UInt8).toNat < (UInt8.ofNat v).toNat := UInt8.lt_iff_toNat_lt.mp hgt
        rw [hc] at hgt'
        have : UInt8.toNat 1 = 1 := rfl
        omega
    · rw [putUvarint_ge h] at hseg hl ⊢
      obtain ⟨h0, hrest⟩ := seg_cons hseg
      have hsz := (Array.getElem?_eq_some_iff.mp h0).1
      have hc : (UInt8.ofNat (v % 128 + 128)).toNat = v % 128 + 128 := by simp only [UInt8.toNat_ofNat']; omega
      have hi8 : i ≤ 8 := by
        by_cases h9 : i = 9
        · subst h9; omega
        · omega
      have hc' : (UInt8.ofNat (v % 128 + 128) &&& 127).toNat = v % 128 := by
        rw [UInt8.toNat_and, hc]
        have := Nat.and_two_pow_sub_one_eq_mod (v % 128 + 128) 7
        have e : UInt8.toNat 127 = 2^7 - 1 := rfl
        rw [e, this]; omega
      have hmul : v % 128 * 2^(7*i) ≤ 127 * 2^(7*i) := Nat.mul_le_mul_right _ (by omega)
      have hle : v % 128 * 2^(7*i) ≤ v * 2^(7*i) := Nat.mul_le_mul_right _ (Nat.mod_le _ _)
      have e : 2^(7*(i+1)) = 2^(7*i) * 128 := by rw [Nat.mul_succ, Nat.pow_add]
      have hsp := split128 v (2^(7*i))
      rw [if_neg (by omega), seg_getD h0, if_neg (by rw [UInt8.lt_iff_toNat_lt, hc]; show ¬ _ < 128; omega)]
      have e7 : 7 * i + 7 = 7 * (i + 1) := by omega
      rw [e7]
      have hx' : (x ||| (UInt8.ofNat (v % 128 + 128) &&& 127).toUInt64 <<< UInt64.ofNat (7 * i)).toNat =
          x.toNat + v % 128 * 2^(7*i) := by
        rw [or_shift x _ (7*i) (by omega) hx (by rw [hc']; omega), hc']
      rw [Nat.add_assoc pos i 1] at hrest
      rw [ih (v / 128) (i + 1) _ (by omega) (by rw [hx', e]; omega) (by rw [hx', e]; omega)
        (by simp only [List.length_cons] at hl; omega) hrest]
      simp only [List.length_cons, Option.some.injEq, Prod.mk.injEq]
      refine ⟨?_, by omega⟩
      rw [hx', e]
      congr 1
      omega

/-- `readUvarint` at a position where `putUvarint x` stands returns `x` and the position after it -/
theorem readUvarint_seg {b : Bytes} {pos x : Nat} (hx : x < 2^64) (h : Seg b pos (putUvarint x)) :
    readUvarint b pos = some (UInt64.ofNat x, pos + (putUvarint x).length) := by
  rw [readUvarint_rec]
  have := uvRec_put b pos 10 x 0 0 (by omega) (by decide) (by simpa using hx) (putUvarint_length_le_ten hx) h
  simpa using this

/-- **1.** `binary.ReadUvarint` reads back what `binary.PutUvarint` wrote, wherever it stands. -/
theorem readUvarint_putUvarint (x : Nat) (hx : x < 2^64) (pre post : Bytes) :
    readUvarint (pre ++ (putUvarint x).toArray ++ post) pre.size =
      some (UInt64.ofNat x, pre.size + (putUvarint x).length) :=
  readUvarint_seg hx (seg_embed pre post _)

-- 4. `decBlock` reads what the block writers wrote ---------------------------------------------------------------

theorem decBlock_core (codec : Codec) {b : Bytes} {pos : Nat} {t : UInt8} {c : List UInt8} (want : Nat)
    (hn : c.length + 1 < 2^64) (h : Seg b pos (putUvarint (c.length + 1) ++ t :: c)) :
    decBlock codec b pos want =
      (if t.toNat == cblockTypeUncompressed then
        if c.toArray.size != want then (.fail, pos + (putUvarint (c.length + 1)).length + 1 + c.length)
        else (.data c.toArray, pos + (putUvarint (c.length + 1)).length + 1 + c.length)
      else if t.toNat == cblockTypeS2 ∨ t.toNat == cblockTypeZstd then
        match codec t c.toArray want with
        | some d => (.data d, pos + (putUvarint (c.length + 1)).length + 1 + c.length)
        | none => (.codecErr, pos + (putUvarint (c.length + 1)).length + 1 + c.length)
      else (.fail, pos + (putUvarint (c.length + 1)).length + 1 + c.length)) := by
  obtain ⟨h1, h2⟩ := seg_append h
  obtain ⟨h3, h4⟩ := seg_cons h2
  have hsz := seg_size h2 (by simp)
  simp only [List.length_cons] at hsz
  have hex := seg_extract h4
  unfold decBlock
  rw [readUvarint_seg hn h1]
  simp only []
  have e1 : (UInt64.ofNat (c.length + 1)).toNat = c.length + 1 := SerdeRT.toNat_ofNat_lt hn
  have e2 : (UInt64.ofNat (c.length + 1) == 0) = false := by
    apply Bool.eq_false_iff.mpr
    intro hh
    have h0 : UInt64.ofNat (c.length + 1) = 0 := by simpa using hh
    have := congrArg UInt64.toNat h0
    rw [e1] at this
    simp at this
  rw [e1, e2, if_neg (by omega), if_neg (by simp), if_neg (by omega), seg_getD h3, Nat.add_sub_cancel, hex]
  rfl

/-- What the decoder needs from a block writer `blk` (everything the writer leaves in its buffer for the data `d`):
    a type byte followed by a payload; either the block is stored (`blockTypeUncompressed`, payload = data) or it is
    an S2/zstd block that `codec` decompresses to `d` when asked for `d.size` bytes.  The Go serializer may choose per
    block, so the contract is per block. -/
def BlkOK (blk : Bytes → Bytes) (codec : Codec) : Prop :=
  ∀ d : Bytes, ∃ (t : UInt8) (c : Bytes), blk d = #[t] ++ c ∧
    ((t.toNat = cblockTypeUncompressed ∧ c = d) ∨
     ((t.toNat = cblockTypeS2 ∨ t.toNat = cblockTypeZstd) ∧ codec t c d.size = some d))

/-- the contract of a compressing block writer and its codec, stated on the first byte and the rest of the block -/
def CodecOK (blk : Bytes → Bytes) (codec : Codec) : Prop :=
  ∀ d : Bytes, 1 ≤ (blk d).size ∧
    codec ((blk d).getD 0 0) ((blk d).extract 1 (blk d).size) d.size = some d ∧
    (((blk d).getD 0 0).toNat = cblockTypeS2 ∨ ((blk d).getD 0 0).toNat = cblockTypeZstd)

theorem blkOK_raw (codec : Codec) : BlkOK blkRaw codec :=
  fun d => ⟨UInt8.ofNat cblockTypeUncompressed, d, rfl, Or.inl ⟨rfl, rfl⟩⟩

theorem head_tail (B : Bytes) (h : 1 ≤ B.size) : B = #[B.getD 0 0] ++ B.extract 1 B.size := by
  apply Array.ext_getElem?
  intro i
  cases i with
  | zero =>
    rw [Array.getElem?_append_left (by simp)]
    simp only [Array.getD, show 0 < B.size from h, dite_true]
    simp [Array.getElem?_eq_getElem h]
  | succ i =>
    rw [Array.getElem?_append_right (by simp), Array.getElem?_extract]
    simp only [List.size_toArray, List.length_cons, List.length_nil, Nat.zero_add, Nat.add_sub_cancel, Nat.min_self]
    by_cases hi : i < B.size - 1
    · rw [if_pos hi, Nat.add_comm]
    · rw [if_neg hi, Array.getElem?_eq_none (by omega)]

theorem blkOK_of_codecOK {blk : Bytes → Bytes} {codec : Codec} (h : CodecOK blk codec) : BlkOK blk codec := by
  intro d
  obtain ⟨h1, h2, h3⟩ := h d
  exact ⟨_, _, head_tail (blk d) h1, Or.inr ⟨h3, h2⟩⟩

/-- **2.** `decBlock` at a position where a block written for `d` stands (its length as a uvarint, then the block)
    returns `d` and the position after the block, when asked for `d.size` bytes. -/
theorem decBlock_seg {blk : Bytes → Bytes} {codec : Codec} (hb : BlkOK blk codec) {b : Bytes} {pos : Nat} (d : Bytes)
    (hn : (blk d).size < 2^64) (h : Seg b pos (putUvarint (blk d).size ++ (blk d).toList)) :
    decBlock codec b pos d.size = (.data d, pos + (putUvarint (blk d).size).length + (blk d).size) := by
  obtain ⟨t, c, e, hc⟩ := hb d
  have e1 : (blk d).size = c.toList.length + 1 := by rw [e]; simp; omega
  have e2 : (blk d).toList = t :: c.toList := by rw [e]; simp
  rw [e1] at hn
  rw [e2] at h
  rw [e1] at h ⊢
  rw [decBlock_core codec d.size hn h]
  rcases hc with ⟨ht, rfl⟩ | ⟨ht, hcd⟩
  · rw [if_pos (by simp [ht]), if_neg (by simp)]
    simp only [Array.toArray_toList, Array.length_toList, Nat.add_assoc, Nat.add_comm 1]
  · have hne : ¬ (t.toNat == cblockTypeUncompressed) = true := by
      rcases ht with ht | ht <;> rw [ht] <;> decide
    rw [if_neg hne, if_pos (by rcases ht with ht | ht <;> simp [ht])]
    simp only [Array.toArray_toList, hcd, Array.length_toList, Nat.add_assoc, Nat.add_comm 1]

theorem toArray_append_toList (l : List UInt8) (B : Bytes) : (l ++ B.toList).toArray = l.toArray ++ B := by
  apply Array.ext'
  simp

/-- `decBlock_seg` for the uncompressed writer, between an arbitrary prefix and suffix, for every codec -/
theorem decBlock_blkRaw (codec : Codec) (pre post d : Bytes) (hd : d.size + 1 < 2^64) :
    decBlock codec (pre ++ ((putUvarint (blkRaw d).size).toArray ++ blkRaw d) ++ post) pre.size d.size =
      (.data d, pre.size + (putUvarint (blkRaw d).size).length + (blkRaw d).size) := by
  have hs : (blkRaw d).size = d.size + 1 := by simp [blkRaw]; omega
  have := seg_embed pre post (putUvarint (blkRaw d).size ++ (blkRaw d).toList)
  rw [toArray_append_toList] at this
  exact decBlock_seg (blkOK_raw codec) d (by omega) this

/-- the same for a compressing writer with its codec -/
theorem decBlock_codec {blk : Bytes → Bytes} {codec : Codec} (hc : CodecOK blk codec) (pre post d : Bytes)
    (hd : (blk d).size < 2^64) :
    decBlock codec (pre ++ ((putUvarint (blk d).size).toArray ++ blk d) ++ post) pre.size d.size =
      (.data d, pre.size + (putUvarint (blk d).size).length + (blk d).size) := by
  have := seg_embed pre post (putUvarint (blk d).size ++ (blk d).toList)
  rw [toArray_append_toList] at this
  exact decBlock_seg (blkOK_of_codecOK hc) d hd this

/-- the empty block of the (always empty) strings section: size field 0, wanted length 0 -/
theorem decBlock_empty (codec : Codec) {b : Bytes} {pos : Nat} (h : Seg b pos [0]) :
    decBlock codec b pos 0 = (.data #[], pos + 1) := by
  have h0 : putUvarint 0 = [0] := by rw [putUvarint_lt (by decide)]; rfl
  rw [← h0] at h
  unfold decBlock
  rw [readUvarint_seg (by decide) h, h0]
  rfl

-- 5. `deserialize` on a well-framed input ------------------------------------------------------------------------

/-- `deserialize` when every header field and every block reads back: it is `deserializeSections` of the sections
    read, run on the destination tape resized to the declared size (all four outcomes of `rebuild` included). -/
theorem deserialize_frames (codec : Codec) (src : Bytes) (prior : Array UInt64)
    (c ts ss ms tgs vs : UInt64) (p1 p2 p3 p4 p5 p6 p7 p8 p9 p10 : Nat) (msg tags values : Bytes)
    (h0 : 0 < src.size) (hver : (src.getD 0 0).toNat ≤ cserializedVersion)
    (h1 : readUvarint src 1 = some (c, p1)) (hc : toInt64 c ≤ ((src.size - p1 : Nat) : Int))
    (h2 : readUvarint src p1 = some (ts, p2))
    (h3 : readUvarint src p2 = some (ss, p3))
    (h4 : decBlock codec src p3 ss.toNat = (.data #[], p4))
    (h5 : readUvarint src p4 = some (ms, p5))
    (h6 : decBlock codec src p5 ms.toNat = (.data msg, p6))
    (h7 : readUvarint src p6 = some (tgs, p7))
    (h8 : decBlock codec src p7 tgs.toNat = (.data tags, p8))
    (h9 : readUvarint src p8 = some (vs, p9))
    (h10 : decBlock codec src p9 vs.toNat = (.data values, p10)) :
    deserialize codec src prior =
      deserializeSections { tapeSize := ts.toNat, strings := #[], msg := msg, tags := tags, values := values }
        (prior.extract 0 ts.toNat ++ Array.replicate (ts.toNat - prior.size) 0) := by
  unfold deserialize deserializeSections
  have h0' : (src.size == 0) = false := beq_eq_false_iff_ne.mpr (by omega)
  simp only [h0', if_neg (Nat.not_lt.mpr hver), h1, if_neg (Int.not_lt.mpr hc), h2, h3, h4, h5, h6, h7, h8, h9, h10]
  cases rebuild (prior.extract 0 ts.toNat ++ Array.replicate (ts.toNat - prior.size) 0) tags values <;> rfl

-- 6. the layout of `encodeSections` ---------------------------------------------------------------------------------

/-- the value `Serialize` writes into the total-size field -/
def frameTotal (blk : Bytes → Bytes) (sec : Sections) : Nat :=
  1 + (blk sec.msg).size + (blk sec.tags).size + (blk sec.values).size +
    ((putUvarint 0).length + (putUvarint (blk sec.msg).size).length + (putUvarint sec.tags.size).length +
     (putUvarint (blk sec.tags).size).length + (putUvarint sec.values.size).length +
     (putUvarint (blk sec.values).size).length + (putUvarint sec.msg.size).length + (putUvarint sec.tapeSize).length)

/-- size premises of the framing theorems: every field fits its uvarint / `uint64` -/
structure FrameOK (blk : Bytes → Bytes) (sec : Sections) : Prop where
  tape : sec.tapeSize < 2^64
  msg : sec.msg.size < 2^64
  tags : sec.tags.size < 2^64
  values : sec.values.size < 2^64
  total : (blk sec.msg).size + (blk sec.tags).size + (blk sec.values).size + 72 < 2^64

theorem putUvarint_zero : putUvarint 0 = [0] := by rw [putUvarint_lt (by decide)]; rfl

theorem encode_toList (blk : Bytes → Bytes) (sec : Sections) :
    (encodeSections blk sec).toList =
      UInt8.ofNat cserializedVersion :: (putUvarint (frameTotal blk sec) ++ (putUvarint sec.tapeSize ++ (0 :: 0 ::
        (putUvarint sec.msg.size ++ ((putUvarint (blk sec.msg).size ++ (blk sec.msg).toList) ++
        (putUvarint sec.tags.size ++ ((putUvarint (blk sec.tags).size ++ (blk sec.tags).toList) ++
        (putUvarint sec.values.size ++ (putUvarint (blk sec.values).size ++ (blk sec.values).toList))))))))) := by
  unfold encodeSections frameTotal
  simp only [Array.toList_append, List.append_assoc, List.cons_append, List.nil_append]

theorem seg_single {b : Bytes} {p : Nat} {a : UInt8} (h : b[p]? = some a) : Seg b p [a] := by
  intro k hk
  have : k = 0 := by simpa using hk
  subst this
  simpa using h

/-- everything the decoder reads from `src`, field by field -/
structure Frames (codec : Codec) (src : Bytes) (sec : Sections) (total p1 p2 p3 p4 p5 p6 p7 p8 p9 p10 : Nat) : Prop where
  h0 : 0 < src.size
  hver : src.getD 0 0 = UInt8.ofNat cserializedVersion
  h1 : readUvarint src 1 = some (UInt64.ofNat total, p1)
  htot : total = src.size - p1
  htot64 : total < 2^64
  h2 : readUvarint src p1 = some (UInt64.ofNat sec.tapeSize, p2)
  h3 : readUvarint src p2 = some (UInt64.ofNat 0, p3)
  h4 : decBlock codec src p3 0 = (.data #[], p4)
  h5 : readUvarint src p4 = some (UInt64.ofNat sec.msg.size, p5)
  h6 : decBlock codec src p5 sec.msg.size = (.data sec.msg, p6)
  h7 : readUvarint src p6 = some (UInt64.ofNat sec.tags.size, p7)
  h8 : decBlock codec src p7 sec.tags.size = (.data sec.tags, p8)
  h9 : readUvarint src p8 = some (UInt64.ofNat sec.values.size, p9)
  h10 : decBlock codec src p9 sec.values.size = (.data sec.values, p10)
  hend : p10 = src.size

theorem encode_layout {blk : Bytes → Bytes} {codec : Codec} (hb : BlkOK blk codec) (sec : Sections)
    (hf : FrameOK blk sec) :
    ∃ p1 p2 p3 p4 p5 p6 p7 p8 p9 p10,
      Frames codec (encodeSections blk sec) sec (frameTotal blk sec) p1 p2 p3 p4 p5 p6 p7 p8 p9 p10 := by
  have hL := encode_toList blk sec
  have hseg := seg_self (encodeSections blk sec)
  rw [hL] at hseg
  have hlen := congrArg List.length hL
  simp only [List.length_append, List.length_cons, Array.length_toList] at hlen
  generalize encodeSections blk sec = src at *
  obtain ⟨c1, c2, c3, c4, c5⟩ := hf
  have l1 := putUvarint_length_le_ten c1
  have l2 := putUvarint_length_le_ten c2
  have l3 := putUvarint_length_le_ten c3
  have l4 := putUvarint_length_le_ten c4
  have l5 := putUvarint_length_le_ten (x := (blk sec.msg).size) (by omega)
  have l6 := putUvarint_length_le_ten (x := (blk sec.tags).size) (by omega)
  have l7 := putUvarint_length_le_ten (x := (blk sec.values).size) (by omega)
  have hT : frameTotal blk sec = 1 + (blk sec.msg).size + (blk sec.tags).size + (blk sec.values).size +
    (1 + (putUvarint (blk sec.msg).size).length + (putUvarint sec.tags.size).length +
     (putUvarint (blk sec.tags).size).length + (putUvarint sec.values.size).length +
     (putUvarint (blk sec.values).size).length + (putUvarint sec.msg.size).length +
     (putUvarint sec.tapeSize).length) := by
    unfold frameTotal; rw [putUvarint_zero]; rfl
  have hT64 : frameTotal blk sec < 2^64 := by omega
  obtain ⟨a0, s1⟩ := seg_cons hseg
  rw [Nat.zero_add] at s1
  obtain ⟨a1, s2⟩ := seg_append s1
  obtain ⟨a2, s3⟩ := seg_append s2
  obtain ⟨a3, s4⟩ := seg_cons s3
  obtain ⟨a4, s5⟩ := seg_cons s4
  obtain ⟨a5, s6⟩ := seg_append s5
  obtain ⟨a6, s7⟩ := seg_append s6
  obtain ⟨a7, s8⟩ := seg_append s7
  obtain ⟨a8, s9⟩ := seg_append s8
  obtain ⟨a9, a10⟩ := seg_append s9
  have z : putUvarint 0 = [0] := putUvarint_zero
  have r3 := readUvarint_seg (x := 0) (by decide) (by rw [z]; exact seg_single a3)
  rw [z] at r3
  have r6 := decBlock_seg hb sec.msg (by omega) a6
  have r8 := decBlock_seg hb sec.tags (by omega) a8
  have r10 := decBlock_seg hb sec.values (by omega) a10
  simp only [List.length_append, Array.length_toList, ← Nat.add_assoc] at r6 r8 r10 a7 a8 a9 a10
  refine ⟨_, _, _, _, _, _, _, _, _, _,
    ⟨by omega, seg_getD a0, readUvarint_seg hT64 a1, ?_, hT64, readUvarint_seg c1 a2, r3,
     decBlock_empty codec (seg_single a4), readUvarint_seg c2 a5, r6, readUvarint_seg c3 a7, r8,
     readUvarint_seg c4 a9, r10, ?_⟩⟩
  · rw [hT] at hlen ⊢; omega
  · omega

-- 7. main theorems ----------------------------------------------------------------------------------------------------

/-- the encoder's total-size field passes the decoder's `int(c) > br.Len()` test: it is exactly the number of bytes that
    follow it (or, from 2^63 on, negative as an `int`) -/
theorem toInt64_total {total n : Nat} (h : total = n) (h64 : total < 2^64) :
    toInt64 (UInt64.ofNat total) ≤ (n : Int) := by
  unfold toInt64
  rw [SerdeRT.toNat_ofNat_lt h64]
  split <;> omega

/-- **3 (general form).** For every block writer/codec pair satisfying the per-block contract `BlkOK` (stored blocks,
    compressed blocks, or a mix), `Deserialize` of the bytes `Serialize` wrote for `sec` is the reconstruction
    `deserializeSections` run on the sections themselves, with the destination tape resized to `sec.tapeSize`
    — literally the same `Res` for all four outcomes of `rebuild`. -/
theorem deserialize_encode_blk {blk : Bytes → Bytes} {codec : Codec} (hb : BlkOK blk codec) (sec : Sections)
    (hf : FrameOK blk sec) (prior : Array UInt64) :
    deserialize codec (encodeSections blk sec) prior =
      deserializeSections { sec with strings := #[] }
        (prior.extract 0 sec.tapeSize ++ Array.replicate (sec.tapeSize - prior.size) 0) := by
  obtain ⟨p1, p2, p3, p4, p5, p6, p7, p8, p9, p10, L⟩ := encode_layout hb sec hf
  have t1 := SerdeRT.toNat_ofNat_lt hf.tape
  have t2 := SerdeRT.toNat_ofNat_lt hf.msg
  have t3 := SerdeRT.toNat_ofNat_lt hf.tags
  have t4 := SerdeRT.toNat_ofNat_lt hf.values
  have t0 : (UInt64.ofNat 0).toNat = 0 := rfl
  have := deserialize_frames codec (encodeSections blk sec) prior _ _ _ _ _ _ p1 p2 p3 p4 p5 p6 p7 p8 p9 p10
    sec.msg sec.tags sec.values L.h0 (by rw [L.hver]; decide) L.h1 (toInt64_total L.htot L.htot64) L.h2 L.h3
    (by rw [t0]; exact L.h4) L.h5 (by rw [t2]; exact L.h6) L.h7 (by rw [t3]; exact L.h8) L.h9
    (by rw [t4]; exact L.h10)
  rw [this, t1]

/-- **3.** uncompressed mode, every codec -/
theorem deserialize_encode (codec : Codec) (sec : Sections) (hf : FrameOK blkRaw sec) (prior : Array UInt64) :
    deserialize codec (encodeSections blkRaw sec) prior =
      deserializeSections { sec with strings := #[] }
        (prior.extract 0 sec.tapeSize ++ Array.replicate (sec.tapeSize - prior.size) 0) :=
  deserialize_encode_blk (blkOK_raw codec) sec hf prior

/-- **3.** compressed mode, for a writer and codec satisfying `CodecOK` -/
theorem deserialize_encode_codec {blk : Bytes → Bytes} {codec : Codec} (hc : CodecOK blk codec) (sec : Sections)
    (hf : FrameOK blk sec) (prior : Array UInt64) :
    deserialize codec (encodeSections blk sec) prior =
      deserializeSections { sec with strings := #[] }
        (prior.extract 0 sec.tapeSize ++ Array.replicate (sec.tapeSize - prior.size) 0) :=
  deserialize_encode_blk (blkOK_of_codecOK hc) sec hf prior

theorem strings_eta (sec : Sections) (hs : sec.strings = #[]) : { sec with strings := #[] } = sec := by
  cases sec
  simp only at hs
  subst hs
  rfl

/-- **3**, for sections whose strings section is empty (as `serialize` produces them) -/
theorem deserialize_encode_sec {blk : Bytes → Bytes} {codec : Codec} (hb : BlkOK blk codec) (sec : Sections)
    (hs : sec.strings = #[]) (hf : FrameOK blk sec) (prior : Array UInt64) :
    deserialize codec (encodeSections blk sec) prior =
      deserializeSections sec (prior.extract 0 sec.tapeSize ++ Array.replicate (sec.tapeSize - prior.size) 0) := by
  rw [deserialize_encode_blk hb sec hf prior, strings_eta sec hs]

/-- the form with the outcomes of `rebuild` spelled out -/
theorem deserialize_encode_cases {blk : Bytes → Bytes} {codec : Codec} (hb : BlkOK blk codec) (sec : Sections)
    (hf : FrameOK blk sec) (prior : Array UInt64) :
    deserialize codec (encodeSections blk sec) prior =
      match rebuild (prior.extract 0 sec.tapeSize ++ Array.replicate (sec.tapeSize - prior.size) 0)
          sec.tags sec.values with
      | .ok tp => .ok { tape := tp, strings := #[], msg := sec.msg }
      | .error e => .error e
      | .panic => .panic
      | .diverge => .diverge := by
  rw [deserialize_encode_blk hb sec hf prior]
  unfold deserializeSections
  cases rebuild (prior.extract 0 sec.tapeSize ++ Array.replicate (sec.tapeSize - prior.size) 0)
    sec.tags sec.values <;> rfl

/-- the size premises for the uncompressed writer, from one bound on the sum -/
theorem frameOK_raw (sec : Sections) (ht : sec.tapeSize < 2^64)
    (h : sec.msg.size + sec.tags.size + sec.values.size + 75 < 2^64) : FrameOK blkRaw sec := by
  have e : ∀ d : Bytes, (blkRaw d).size = d.size + 1 := by intro d; simp [blkRaw]; omega
  exact ⟨ht, by omega, by omega, by omega, by rw [e, e, e]; omega⟩

/-- **5.** `sectionsOfRaw` recovers the sections from the bytes of the uncompressed mode (so re-encoding the sections
    read from the implementation's bytes is a sound differential check). -/
theorem sectionsOfRaw_encode' (sec : Sections) (hf : FrameOK blkRaw sec) :
    sectionsOfRaw (encodeSections blkRaw sec) = some { sec with strings := #[] } := by
  obtain ⟨p1, p2, p3, p4, p5, p6, p7, p8, p9, p10, L⟩ := encode_layout (blkOK_raw (fun _ _ _ => none)) sec hf
  have t1 := SerdeRT.toNat_ofNat_lt hf.tape
  have t2 := SerdeRT.toNat_ofNat_lt hf.msg
  have t3 := SerdeRT.toNat_ofNat_lt hf.tags
  have t4 := SerdeRT.toNat_ofNat_lt hf.values
  have t0 : (UInt64.ofNat 0).toNat = 0 := rfl
  have h0' : ((encodeSections blkRaw sec).size == 0) = false := beq_eq_false_iff_ne.mpr (by have := L.h0; omega)
  unfold sectionsOfRaw
  simp only [h0', L.h1, L.h2, L.h3, t0, L.h4, L.h5, t2, L.h6, L.h7, t3, L.h8, L.h9, t4, L.h10, L.hend, t1, beq_self_eq_true,
    if_true, Bool.false_eq_true, if_false]

theorem sectionsOfRaw_encode (sec : Sections) (hs : sec.strings = #[]) (hf : FrameOK blkRaw sec) :
    sectionsOfRaw (encodeSections blkRaw sec) = some sec := by
  rw [sectionsOfRaw_encode' sec hf, strings_eta sec hs]

-- 8. sizes of the streams `serLoop` writes, and the end-to-end corollary ----------------------------------------------

theorem pushVal_values_size (s : SerState) (w : UInt64) : (pushVal s w).values.size = s.values.size + 8 := by
  simp only [pushVal, Array.size_append, List.size_toArray, SerdeRT.le64Bytes_length]

/-- one tag per step and at most 16 value bytes per step -/
theorem serLoop_sizes (pj : PJ) (hash : Bytes → Nat) :
    ∀ (fuel : Nat) (s : SerState) (off : Nat) (s' : SerState), serLoop pj hash s off fuel = .ok s' →
      s'.tags.size ≤ s.tags.size + (pj.tape.size - off) ∧
      s'.values.size ≤ s.values.size + 16 * (pj.tape.size - off) := by
  intro fuel
  induction fuel with
  | zero => intro s off s' h; cases h
  | succ fuel ih =>
    intro s off s' h
    have fin : ∀ (S' : SerState) (k : Nat), S'.tags.size ≤ s.tags.size + 1 → S'.values.size ≤ s.values.size + 16 →
        off + k ≤ pj.tape.size → 1 ≤ k → serLoop pj hash S' (off + k) fuel = .ok s' →
        s'.tags.size ≤ s.tags.size + (pj.tape.size - off) ∧
        s'.values.size ≤ s.values.size + 16 * (pj.tape.size - off) := by
      intro S' k hb1 hb2 hk1 hk2 hr
      have := ih S' (off + k) s' hr
      omega
    rw [serLoop] at h
    split at h
    · cases h; omega
    · next hlt =>
      have hlt' : off < pj.tape.size := by omega
      rw [rd_ok _ _ hlt'] at h
      simp only [Res.bind_ok] at h
      have two : ∀ {β : Type} (f : UInt64 → Res SerState), (rd pj.tape (off + 1) >>= f) = .ok s' →
          off + 2 ≤ pj.tape.size ∧ ∃ v, f v = .ok s' := by
        intro β f hf
        by_cases h2 : off + 1 < pj.tape.size
        · rw [rd_ok _ _ h2] at hf
          exact ⟨by omega, _, hf⟩
        · have : rd pj.tape (off + 1) = .panic := by
            simp only [rd]
            rw [Array.getElem?_eq_none (by omega)]
          rw [this] at hf; cases hf
      split at h
      · exact fin _ 1 (by simp) (by show s.values.size ≤ _; omega) (by omega) (by omega) h
      split at h
      · obtain ⟨hk, len, h⟩ := two (β := Unit) _ h
        split at h
        · next sb hsb =>
          cases hi : indexString hash s sb with
          | mk s1 o64 =>
            rw [hi] at h
            obtain ⟨g1, g2, _⟩ := SerdeRT.indexString_sound hash s s1 sb o64 hi
            refine fin _ 2 ?_ ?_ hk (by omega) h
            · simp only [Array.size_push, SerdeRT.pushVal_tags, g1]; omega
            · dsimp only
              rw [pushVal_values_size, pushVal_values_size, g2]; omega
        · cases h
      split at h
      · obtain ⟨hk, v, h⟩ := two (β := Unit) _ h
        refine fin _ 2 ?_ ?_ hk (by omega) h
        · simp only [Array.size_push, SerdeRT.pushVal_tags]; omega
        · dsimp only
          rw [pushVal_values_size]; omega
      split at h
      · obtain ⟨hk, v, h⟩ := two (β := Unit) _ h
        split at h
        · refine fin _ 2 ?_ ?_ hk (by omega) h
          · simp only [Array.size_push, SerdeRT.pushVal_tags]; omega
          · dsimp only
            rw [pushVal_values_size]; omega
        · refine fin _ 2 ?_ ?_ hk (by omega) h
          · simp only [Array.size_push, SerdeRT.pushVal_tags]; omega
          · dsimp only
            rw [pushVal_values_size, pushVal_values_size]; omega
      split at h
      · exact fin _ 1 (by simp) (by show s.values.size ≤ _; omega) (by omega) (by omega) h
      split at h
      · refine fin _ 1 ?_ ?_ (by omega) (by omega) h
        · simp only [Array.size_push, SerdeRT.pushVal_tags]; omega
        · dsimp only
          rw [pushVal_values_size]; omega
      split at h
      · exact fin _ 1 (by simp) (by show s.values.size ≤ _; omega) (by omega) (by omega) h
      · cases h

theorem serialize_sizes (pj : PJ) (hash : Bytes → Nat) (sec : Sections) (h : serialize pj hash = .ok sec) :
    sec.strings = #[] ∧ sec.tapeSize = pj.tape.size ∧ sec.tags.size ≤ pj.tape.size ∧
      sec.values.size ≤ 16 * pj.tape.size := by
  unfold serialize at h
  cases hs : serLoop pj hash {} 0 (pj.tape.size + 1) with
  | ok s =>
    rw [hs] at h
    simp only [Res.bind_ok, Res.ok.injEq] at h
    subst h
    have := serLoop_sizes pj hash _ _ _ _ hs
    exact ⟨rfl, rfl, by simpa using this.1, by simpa using this.2⟩
  | error e => rw [hs] at h; cases h
  | panic => rw [hs] at h; cases h
  | diverge => rw [hs] at h; cases h

/-- under the size conditions of `SerdeRT.roundtrip_of_bound` the sections written by `serialize` satisfy the size
    premises of the framing theorems (uncompressed writer) -/
theorem frameOK_of_serialize (pj : PJ) (hash : Bytes → Nat) (hsz : pj.tape.size < 2^56)
    (hb : pj.tape.size * max pj.msg.size pj.strings.size < 2^55) (sec : Sections) (h : serialize pj hash = .ok sec) :
    FrameOK blkRaw sec := by
  obtain ⟨_, h2, h3, h4⟩ := serialize_sizes pj hash sec h
  have hm := SerdeRT.serialize_msg_bound pj hash _ (Nat.le_max_left _ _) (Nat.le_max_right _ _) sec h
  exact frameOK_raw sec (by omega) (by omega)

/-- **4 (general form).** End to end on bytes, for any block writer/codec with the per-block contract, given that the
    written sections fit the frame (`FrameOK`, a bound on the compressed block sizes). -/
theorem serialize_deserialize_blk {blk : Bytes → Bytes} {codec : Codec} (hblk : BlkOK blk codec)
    (pj : PJ) (d : List Layout.JVal) (hash : Bytes → Nat) (hwf : Layout.WF pj d) (hsz : pj.tape.size < 2^56)
    (hb : pj.tape.size * max pj.msg.size pj.strings.size < 2^55)
    (hfr : ∀ sec, serialize pj hash = .ok sec → FrameOK blk sec) (prior : Array UInt64) :
    ∃ sec pj', serialize pj hash = .ok sec ∧
      deserialize codec (encodeSections blk sec) prior = .ok pj' ∧ Layout.WF pj' d ∧
      pj'.tape.size = pj.tape.size ∧ pj'.strings = #[] ∧ pj'.msg = sec.msg := by
  obtain ⟨sec, h1, h2, h3⟩ := SerdeRT.roundtrip_of_bound pj d hash hwf hsz hb
  obtain ⟨hs, _⟩ := serialize_sizes pj hash sec h1
  obtain ⟨pj', h4, h5, h6, h7, h8⟩ := h3 _ (init_size prior sec.tapeSize)
  refine ⟨sec, pj', h1, ?_, h5, h6, h7, h8⟩
  rw [deserialize_encode_sec hblk sec hs (hfr sec h1) prior, ← h4]

/-- **4.** `Serialize` (uncompressed mode) followed by `Deserialize` — on the bytes, with any codec and any prior
    contents of the destination tape — succeeds and yields a tape denoting the same document. -/
theorem serialize_deserialize (codec : Codec) (pj : PJ) (d : List Layout.JVal) (hash : Bytes → Nat)
    (hwf : Layout.WF pj d) (hsz : pj.tape.size < 2^56) (hb : pj.tape.size * max pj.msg.size pj.strings.size < 2^55)
    (prior : Array UInt64) :
    ∃ sec pj', serialize pj hash = .ok sec ∧
      deserialize codec (encodeSections blkRaw sec) prior = .ok pj' ∧ Layout.WF pj' d := by
  obtain ⟨sec, pj', h1, h2, h3, _⟩ := serialize_deserialize_blk (blkOK_raw codec) pj d hash hwf hsz hb
    (frameOK_of_serialize pj hash hsz hb) prior
  exact ⟨sec, pj', h1, h2, h3⟩

-- 9. non-vacuity -----------------------------------------------------------------------------------------------------

/-- the sections `serialize` writes for the document `[1,"ab"]` -/
def exSec : Sections :=
  { tapeSize := 8, strings := #[], msg := #[97, 98], tags := #[114, 91, 108, 34, 93, 114],
    values := #[8, 0, 0, 0, 0, 0, 0, 0, 6, 0, 0, 0, 0, 0, 0, 0, 1, 0, 0, 0, 0, 0, 0, 0, 0, 0, 0, 0, 0, 0, 0, 0,
                2, 0, 0, 0, 0, 0, 0, 0, 249, 255, 255, 255, 255, 255, 255, 255] }

/-- the premises hold for it -/
theorem exSec_ok : FrameOK blkRaw exSec := frameOK_raw exSec (by decide) (by decide)

/-- its bytes -/
example : encodeSections blkRaw exSec =
    #[3, 68, 8, 0, 0, 2, 3, 0, 97, 98, 6, 7, 0, 114, 91, 108, 34, 93, 114, 48, 49, 0,
      8, 0, 0, 0, 0, 0, 0, 0, 6, 0, 0, 0, 0, 0, 0, 0, 1, 0, 0, 0, 0, 0, 0, 0, 0, 0, 0, 0, 0, 0, 0, 0,
      2, 0, 0, 0, 0, 0, 0, 0, 249, 255, 255, 255, 255, 255, 255, 255] := by
  simp [encodeSections, blkRaw, putUvarint_lt, exSec, cserializedVersion, cblockTypeUncompressed]

/-- and the conclusion of the main theorem is a successful run: for every codec, `Deserialize` of those bytes into a
    destination holding three stale words returns the tape of `[1,"ab"]` -/
example (codec : Codec) : deserialize codec (encodeSections blkRaw exSec) #[7, 7, 7] =
    .ok ⟨#[8214565720323784712, 6557241057451442183, 7782220156096217088, 1, 2449958197289549824, 2,
           6701356245527298049, 8214565720323784704], #[], #[97, 98]⟩ := by
  rw [deserialize_encode codec exSec exSec_ok]
  set_option maxRecDepth 100000 in rfl

example : sectionsOfRaw (encodeSections blkRaw exSec) = some exSec := sectionsOfRaw_encode exSec rfl exSec_ok

end SJ.Framing
