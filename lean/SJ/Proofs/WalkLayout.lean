import SJ.Proofs.Located
import SJ.Proofs.WalkSafe
set_option linter.unusedVariables false

/-
WalkLayout — properties C02 ("the iterator API exposes exactly the document") and C14 ("every walker
agrees after deletions"): the model's walkers read exactly the located document, also on tapes WITH
GAPS (runs of NOP entries left behind by deletions).
-/
namespace SJ.WalkLayout
open SJ SJ.Generated SJ.Layout SJ.WalkSafe

/-! ## Reading words -/

theorem word_lt {pj : PJ} {k : Nat} {w : UInt64} (h : word pj k = some w) : k < pj.tape.size := by
  simp only [word] at h
  exact (Array.getElem?_eq_some_iff.mp h).1

theorem rd_word {pj : PJ} {k : Nat} {w : UInt64} (h : word pj k = some w) : rd pj.tape k = .ok w := by
  unfold rd; unfold word at h; rw [h]

theorem rdT_word {pj : PJ} {k : Nat} {w : UInt64} (h : word pj k = some w) : Iter.rdT pj k = .ok w :=
  rd_word h

theorem word_inj {pj : PJ} {k : Nat} {w w' : UInt64} (h : word pj k = some w) (h' : word pj k = some w') :
    w' = w := by
  rw [h] at h'; injection h' with h'; exact h'.symm

theorem payload_ne_zero {w : UInt64} (h : 1 ≤ (payloadOf w).toNat) : (payloadOf w == 0) = false := by
  cases hc : payloadOf w == 0
  · rfl
  · have h0 : payloadOf w = 0 := by simpa using hc
    rw [h0] at h
    exact absurd h (by decide)

/-! ## 1. Gap skipping -/

theorem gap_suffix {pj : PJ} {a b c : Nat} (g : Gap pj a b) (h1 : a ≤ c) (h2 : c ≤ b) : Gap pj c b :=
  ⟨h2, fun k hk1 hk2 => g.2 k (by omega) hk2⟩

/-- the first word of a non-empty gap: a NOP whose skip count leads to a later point of the same gap -/
theorem gap_step {pj : PJ} {a b : Nat} (g : Gap pj a b) (h : a < b) :
    ∃ w, word pj a = some w ∧ tagOf w = tagNop ∧ 1 ≤ (payloadOf w).toNat ∧ a + (payloadOf w).toNat ≤ b ∧
      Gap pj (a + (payloadOf w).toNat) b := by
  obtain ⟨w, hw, ht, h1, h2⟩ := g.2 a (Nat.le_refl _) h
  exact ⟨w, hw, ht, h1, h2, gap_suffix g (by omega) h2⟩

/-- The tag register of the starting iterator is dead: every exit of the loop overwrites it. -/
theorem advanceLoop_t (pj : PJ) (i : Iter) (x : UInt8) (off : Nat) :
    Iter.advanceLoop pj { i with t := x } off = Iter.advanceLoop pj i off := by
  rw [Iter.advanceLoop.eq_1 pj i off, Iter.advanceLoop.eq_1 pj { i with t := x } off]

theorem advanceIntoLoop_t (pj : PJ) (i : Iter) (x : UInt8) (off : Nat) :
    Iter.advanceIntoLoop pj { i with t := x } off = Iter.advanceIntoLoop pj i off := by
  rw [Iter.advanceIntoLoop.eq_1 pj i off, Iter.advanceIntoLoop.eq_1 pj { i with t := x } off]

theorem advanceIterLoop_t (pj : PJ) (i : Iter) (x : UInt8) (off : Nat) :
    Iter.advanceIterLoop pj { i with t := x } off = Iter.advanceIterLoop pj i off := by
  rw [Iter.advanceIterLoop.eq_1 pj i off, Iter.advanceIterLoop.eq_1 pj { i with t := x } off]

/-- The payload register of the starting iterator is overwritten by the first word read: it reaches the result
    only when the loop starts at (or beyond) the end of the view. -/
theorem advanceLoop_cur (pj : PJ) (i : Iter) (c : UInt64) {off : Nat} (h : off < i.lim) :
    Iter.advanceLoop pj { i with cur := c } off = Iter.advanceLoop pj i off := by
  rw [Iter.advanceLoop.eq_1 pj i off, Iter.advanceLoop.eq_1 pj { i with cur := c } off]
  simp only [show ¬ off ≥ i.lim from by omega, dite_false]

theorem advanceIntoLoop_cur (pj : PJ) (i : Iter) (c : UInt64) {off : Nat} (h : off < i.lim) :
    Iter.advanceIntoLoop pj { i with cur := c } off = Iter.advanceIntoLoop pj i off := by
  rw [Iter.advanceIntoLoop.eq_1 pj i off, Iter.advanceIntoLoop.eq_1 pj { i with cur := c } off]
  simp only [show ¬ off ≥ i.lim from by omega, dite_false]

theorem advanceIterLoop_cur (pj : PJ) (i : Iter) (c : UInt64) {off : Nat} (h : off < i.lim) :
    Iter.advanceIterLoop pj { i with cur := c } off = Iter.advanceIterLoop pj i off := by
  rw [Iter.advanceIterLoop.eq_1 pj i off, Iter.advanceIterLoop.eq_1 pj { i with cur := c } off]
  simp only [show ¬ off = i.lim from by omega, show ¬ off > i.lim from by omega, if_false, dite_false]

/-- The NOP loops of `Advance`, `AdvanceInto`, `AdvanceIter` started anywhere at the beginning of a gap arrive at
    its end, carrying in `cur` the skip count `c` of the last NOP word they stepped on (the loops overwrite `i.cur`
    and `i.t` on every iteration; `c` is the old payload if the gap is empty). -/
theorem loops_gap' (pj : PJ) : ∀ (n a b : Nat) (i : Iter), b - a = n → Gap pj a b → b ≤ i.lim →
    ∃ c, (a = b → c = i.cur) ∧
      Iter.advanceLoop pj i a = Iter.advanceLoop pj { i with cur := c } b ∧
      Iter.advanceIntoLoop pj i a = Iter.advanceIntoLoop pj { i with cur := c } b ∧
      Iter.advanceIterLoop pj i a = Iter.advanceIterLoop pj { i with cur := c } b := by
  intro n
  induction n using Nat.strongRecOn with
  | _ n ih =>
    intro a b i hn g hb
    by_cases hab : a = b
    · subst hab
      exact ⟨i.cur, fun _ => rfl, rfl, rfl, rfl⟩
    · have hlt : a < b := by have := g.1; omega
      obtain ⟨w, hw, ht, h1, h2, g'⟩ := gap_step g hlt
      obtain ⟨c, _, e1, e2, e3⟩ := ih (b - (a + (payloadOf w).toNat)) (by omega) _ _
        { i with cur := payloadOf w, t := tagNop } rfl g' hb
      have he : a + 1 + ((payloadOf w).toNat - 1) = a + (payloadOf w).toNat := by omega
      refine ⟨c, fun h => absurd h hab, ?_, ?_, ?_⟩
      · rw [Iter.advanceLoop.eq_1 pj i a]
        have hnl : ¬ a ≥ i.lim := by omega
        simp only [hnl, dite_false]
        rw [rdT_word hw]
        simp only [Res.bind_ok, ht, beq_self_eq_true, if_true, payload_ne_zero h1, Bool.false_eq_true, if_false]
        rw [he, e1]
        exact advanceLoop_t pj { i with cur := c } tagNop b
      · rw [Iter.advanceIntoLoop.eq_1 pj i a]
        have hnl : ¬ a ≥ i.lim := by omega
        simp only [hnl, dite_false]
        rw [rdT_word hw]
        simp only [Res.bind_ok, ht, beq_self_eq_true, if_true, payload_ne_zero h1, Bool.false_eq_true, dite_false]
        rw [e2]
        exact advanceIntoLoop_t pj { i with cur := c } tagNop b
      · rw [Iter.advanceIterLoop.eq_1 pj i a]
        have hne : ¬ a = i.lim := by omega
        have hnl : ¬ a > i.lim := by omega
        simp only [hne, hnl, if_false, dite_false]
        rw [rdT_word hw]
        simp only [Res.bind_ok, ht, beq_self_eq_true, if_true, payload_ne_zero h1, Bool.false_eq_true, if_false]
        rw [he, e3]
        exact advanceIterLoop_t pj { i with cur := c } tagNop b

theorem loops_gap (pj : PJ) (i : Iter) {a b : Nat} (g : Gap pj a b) (hb : b ≤ i.lim) :
    ∃ c, (a = b → c = i.cur) ∧
      Iter.advanceLoop pj i a = Iter.advanceLoop pj { i with cur := c } b ∧
      Iter.advanceIntoLoop pj i a = Iter.advanceIntoLoop pj { i with cur := c } b ∧
      Iter.advanceIterLoop pj i a = Iter.advanceIterLoop pj { i with cur := c } b :=
  loops_gap' pj _ a b i rfl g hb

/-- A gap that ends inside the view: the word at its end is read next and overwrites the registers, so the loop
    behaves exactly as if started there. -/
theorem advanceLoop_gap (pj : PJ) (i : Iter) {a b : Nat} (g : Gap pj a b) (hb : b < i.lim) :
    Iter.advanceLoop pj i a = Iter.advanceLoop pj i b := by
  obtain ⟨c, _, e, _, _⟩ := loops_gap pj i g (Nat.le_of_lt hb)
  rw [e, advanceLoop_cur pj i c hb]

theorem advanceIntoLoop_gap (pj : PJ) (i : Iter) {a b : Nat} (g : Gap pj a b) (hb : b < i.lim) :
    Iter.advanceIntoLoop pj i a = Iter.advanceIntoLoop pj i b := by
  obtain ⟨c, _, _, e, _⟩ := loops_gap pj i g (Nat.le_of_lt hb)
  rw [e, advanceIntoLoop_cur pj i c hb]

theorem advanceIterLoop_gap (pj : PJ) (i : Iter) {a b : Nat} (g : Gap pj a b) (hb : b < i.lim) :
    Iter.advanceIterLoop pj i a = Iter.advanceIterLoop pj i b := by
  obtain ⟨c, _, _, _, e⟩ := loops_gap pj i g (Nat.le_of_lt hb)
  rw [e, advanceIterLoop_cur pj i c hb]

theorem peekLoop_gap' (pj : PJ) (lim : Nat) : ∀ (n a b : Nat), b - a = n → Gap pj a b → b ≤ lim →
    Iter.peekLoop pj lim a = Iter.peekLoop pj lim b := by
  intro n
  induction n using Nat.strongRecOn with
  | _ n ih =>
    intro a b hn g hb
    by_cases hab : a = b
    · rw [hab]
    · have hlt : a < b := by have := g.1; omega
      obtain ⟨w, hw, ht, h1, h2, g'⟩ := gap_step g hlt
      rw [Iter.peekLoop]
      have hnl : ¬ a ≥ lim := by omega
      simp only [hnl, dite_false]
      rw [rdT_word hw]
      have hz : ¬ (payloadOf w).toNat = 0 := by omega
      simp only [Res.bind_ok, ht, beq_self_eq_true, if_true, hz, if_false]
      exact ih (b - (a + (payloadOf w).toNat)) (by omega) _ _ rfl g' hb

theorem peekLoop_gap (pj : PJ) (lim : Nat) {a b : Nat} (g : Gap pj a b) (hb : b ≤ lim) :
    Iter.peekLoop pj lim a = Iter.peekLoop pj lim b :=
  peekLoop_gap' pj lim _ a b rfl g hb

/-- `NextElementBytes` steps over a gap, spending at most one unit of fuel per NOP entry. -/
theorem nextElementBytes_gap' (pj : PJ) (lim : Nat) : ∀ (n a b : Nat), b - a = n → Gap pj a b → b ≤ lim →
    ∃ k, k ≤ b - a ∧ ∀ fuel, View.nextElementBytes pj { lim := lim, off := a } (fuel + k) =
      View.nextElementBytes pj { lim := lim, off := b } fuel := by
  intro n
  induction n using Nat.strongRecOn with
  | _ n ih =>
    intro a b hn g hb
    by_cases hab : a = b
    · exact ⟨0, by omega, fun fuel => by rw [hab]; rfl⟩
    · have hlt : a < b := by have := g.1; omega
      obtain ⟨w, hw, ht, h1, h2, g'⟩ := gap_step g hlt
      obtain ⟨k, hk, hk'⟩ := ih (b - (a + (payloadOf w).toNat)) (by omega) _ _ rfl g' hb
      refine ⟨k + 1, by omega, fun fuel => ?_⟩
      rw [← hk' fuel, ← Nat.add_assoc, View.nextElementBytes]
      have hnl : ¬ a ≥ lim := by omega
      have hz : ¬ (payloadOf w).toNat = 0 := by omega
      simp only [hnl, if_false, rd_word hw, Res.bind_ok, ht, show (tagNop == tagString) = false from by decide,
        show (tagNop == tagObjectEnd) = false from by decide, beq_self_eq_true, if_true, hz, Bool.false_eq_true]

theorem nextElementBytes_gap (pj : PJ) (lim : Nat) {a b : Nat} (g : Gap pj a b) (hb : b ≤ lim) :
    ∃ k, k ≤ b - a ∧ ∀ fuel, View.nextElementBytes pj { lim := lim, off := a } (fuel + k) =
      View.nextElementBytes pj { lim := lim, off := b } fuel :=
  nextElementBytes_gap' pj lim _ a b rfl g hb

/-- the same with a fuel budget: any fuel above `lim - a` is enough, and what is left is above `lim - b` -/
theorem nextElementBytes_gap_fuel (pj : PJ) (lim : Nat) {a b : Nat} (g : Gap pj a b) (hb : b ≤ lim)
    (fuel : Nat) (hf : lim - a < fuel) :
    ∃ fuel', lim - b < fuel' ∧ fuel' ≤ fuel ∧ View.nextElementBytes pj { lim := lim, off := a } fuel =
      View.nextElementBytes pj { lim := lim, off := b } fuel' := by
  obtain ⟨k, hk, h⟩ := nextElementBytes_gap pj lim g hb
  have := g.1
  refine ⟨fuel - k, by omega, by omega, ?_⟩
  rw [← h (fuel - k)]
  congr 1
  omega

/-! ## 2. Element step -/

/-- the tag of the node's first word -/
def tagOfL : LVal → UInt8
  | .null _ => tagNull
  | .bool b _ => if b then tagBoolTrue else tagBoolFalse
  | .int _ _ => tagInteger
  | .uint _ _ => tagUint
  | .float _ _ _ => tagFloat
  | .str _ _ => tagString
  | .arr _ _ _ => tagArrayStart
  | .obj _ _ _ => tagObjectStart

/-- `addNext` after `calcNext(true)` on the node: 1 for the two-word values, 0 otherwise -/
def intoNext : LVal → Int
  | .int _ _ | .uint _ _ | .float _ _ _ | .str _ _ => 1
  | _ => 0

theorem ok_head (pj : PJ) (v : LVal) (h : Ok pj v) : ∃ w, word pj v.pos = some w ∧ tagOf w = tagOfL v := by
  cases v <;> simp only [Ok, StrAt, LVal.pos, tagOfL] at *
  case null p => obtain ⟨w, a, b⟩ := h; exact ⟨w, a, b⟩
  case bool b p => obtain ⟨w, a, b⟩ := h; exact ⟨w, a, b⟩
  case int x p => obtain ⟨w, a, b, _⟩ := h; exact ⟨w, a, b⟩
  case uint x p => obtain ⟨w, a, b, _⟩ := h; exact ⟨w, a, b⟩
  case float x f p => obtain ⟨w, a, b, _⟩ := h; exact ⟨w, a, b⟩
  case str s p => obtain ⟨w, l, a, _, b, _⟩ := h; exact ⟨w, a, b⟩
  case arr p e es => obtain ⟨_, ⟨w, a, b, _⟩, _⟩ := h; exact ⟨w, a, b⟩
  case obj p e ms => obtain ⟨_, ⟨w, a, b, _⟩, _⟩ := h; exact ⟨w, a, b⟩

theorem tagOfL_ne_nop (v : LVal) : (tagOfL v == tagNop) = false := by
  cases v <;> simp only [tagOfL] <;> first | decide | (rename_i b _; cases b <;> decide)

theorem iter_ext {i j : Iter} (h1 : i.lim = j.lim) (h2 : i.off = j.off) (h3 : i.addNext = j.addNext)
    (h4 : i.cur = j.cur) (h5 : i.t = j.t) : i = j := by
  cases i; cases j; simp only at *; subst h1 h2 h3 h4 h5; rfl

/-- `calcNext` on a cursor that has just read the first word of a node of the located document -/
theorem calcNext_of (pj : PJ) (v : LVal) (hok : Ok pj v) (i : Iter) (w : UInt64) (hw : word pj v.pos = some w)
    (ht : i.t = tagOf w) (hc : i.cur = payloadOf w) (ho : i.off = v.pos + 1) :
    i.calcNext false = { i with addNext := (v.fin : Int) - ((v.pos + 1 : Nat) : Int) } ∧
    i.calcNext true = { i with addNext := intoNext v } := by
  cases v <;> simp only [Ok, StrAt, LVal.pos, LVal.fin, intoNext] at *
  case null p =>
    obtain ⟨w', a, b⟩ := hok
    cases word_inj hw a
    unfold Iter.calcNext
    rw [ht, b]
    simp only [show inCase (caseOf swCalcNext 0) tagNull = false from by decide,
      show inCase (caseOf swCalcNext 1) tagNull = false from by decide, Bool.false_eq_true, if_false]
    exact ⟨iter_ext rfl rfl (by simp only; omega) rfl rfl, trivial⟩
  case bool b p =>
    obtain ⟨w', a, hb⟩ := hok
    cases word_inj hw a
    unfold Iter.calcNext
    rw [ht, hb]
    cases b <;>
    simp only [show inCase (caseOf swCalcNext 0) tagBoolTrue = false from by decide,
      show inCase (caseOf swCalcNext 1) tagBoolTrue = false from by decide,
      show inCase (caseOf swCalcNext 0) tagBoolFalse = false from by decide,
      show inCase (caseOf swCalcNext 1) tagBoolFalse = false from by decide, Bool.false_eq_true, if_false, if_true] <;>
    exact ⟨iter_ext rfl rfl (by simp only; omega) rfl rfl, trivial⟩
  case int x p =>
    obtain ⟨w', a, b, _⟩ := hok
    cases word_inj hw a
    unfold Iter.calcNext
    rw [ht, b]
    simp only [show inCase (caseOf swCalcNext 0) tagInteger = true from by decide, if_true]
    exact ⟨iter_ext rfl rfl (by simp only; omega) rfl rfl, trivial⟩
  case uint x p =>
    obtain ⟨w', a, b, _⟩ := hok
    cases word_inj hw a
    unfold Iter.calcNext
    rw [ht, b]
    simp only [show inCase (caseOf swCalcNext 0) tagUint = true from by decide, if_true]
    exact ⟨iter_ext rfl rfl (by simp only; omega) rfl rfl, trivial⟩
  case float x f p =>
    obtain ⟨w', a, b, _⟩ := hok
    cases word_inj hw a
    unfold Iter.calcNext
    rw [ht, b]
    simp only [show inCase (caseOf swCalcNext 0) tagFloat = true from by decide, if_true]
    exact ⟨iter_ext rfl rfl (by simp only; omega) rfl rfl, trivial⟩
  case str s p =>
    obtain ⟨w', l, a, _, b, _⟩ := hok
    cases word_inj hw a
    unfold Iter.calcNext
    rw [ht, b]
    simp only [show inCase (caseOf swCalcNext 0) tagString = true from by decide, if_true]
    exact ⟨iter_ext rfl rfl (by simp only; omega) rfl rfl, trivial⟩
  case arr p e es =>
    obtain ⟨_, ⟨w', a, b, hp⟩, _⟩ := hok
    cases word_inj hw a
    unfold Iter.calcNext
    rw [ht, b]
    simp only [show inCase (caseOf swCalcNext 0) tagArrayStart = false from by decide,
      show inCase (caseOf swCalcNext 1) tagArrayStart = true from by decide, Bool.false_eq_true, if_false, if_true]
    exact ⟨iter_ext rfl rfl (by simp only; rw [hc, hp, ho]) rfl rfl, trivial⟩
  case obj p e ms =>
    obtain ⟨_, ⟨w', a, b, hp⟩, _⟩ := hok
    cases word_inj hw a
    unfold Iter.calcNext
    rw [ht, b]
    simp only [show inCase (caseOf swCalcNext 0) tagObjectStart = false from by decide,
      show inCase (caseOf swCalcNext 1) tagObjectStart = true from by decide, Bool.false_eq_true, if_false, if_true]
    exact ⟨iter_ext rfl rfl (by simp only; rw [hc, hp, ho]) rfl rfl, trivial⟩

theorem advanceLoop_live (pj : PJ) (i : Iter) {a : Nat} {w : UInt64} (hw : word pj a = some w)
    (hn : (tagOf w == tagNop) = false) (hl : a < i.lim) :
    Iter.advanceLoop pj i a = .ok ({ i with off := a + 1, cur := payloadOf w, t := tagOf w }, true) := by
  rw [Iter.advanceLoop]
  have hnl : ¬ a ≥ i.lim := by omega
  simp only [hnl, dite_false, rdT_word hw, Res.bind_ok, hn, Bool.false_eq_true, if_false]

theorem advanceIntoLoop_live (pj : PJ) (i : Iter) {a : Nat} {w : UInt64} (hw : word pj a = some w)
    (hn : (tagOf w == tagNop) = false) (hl : a < i.lim) :
    Iter.advanceIntoLoop pj i a = .ok ({ i with off := a + 1, cur := payloadOf w, t := tagOf w }, true) := by
  rw [Iter.advanceIntoLoop]
  have hnl : ¬ a ≥ i.lim := by omega
  simp only [hnl, dite_false, rdT_word hw, Res.bind_ok, hn, Bool.false_eq_true, if_false]

theorem advanceIterLoop_live (pj : PJ) (i : Iter) {a : Nat} {w : UInt64} (hw : word pj a = some w)
    (hn : (tagOf w == tagNop) = false) (hl : a < i.lim) :
    Iter.advanceIterLoop pj i a = .ok ({ i with off := a + 1, cur := payloadOf w, t := tagOf w }, true) := by
  rw [Iter.advanceIterLoop]
  have hne : ¬ a = i.lim := by omega
  have hnl : ¬ a > i.lim := by omega
  simp only [hne, hnl, if_false, dite_false, rdT_word hw, Res.bind_ok, hn, Bool.false_eq_true]

theorem peekLoop_live (pj : PJ) (lim : Nat) {a : Nat} {w : UInt64} (hw : word pj a = some w)
    (hn : (tagOf w == tagNop) = false) (hl : a < lim) :
    Iter.peekLoop pj lim a = .ok (tagOf w) := by
  rw [Iter.peekLoop]
  have hnl : ¬ a ≥ lim := by omega
  simp only [hnl, dite_false, rdT_word hw, Res.bind_ok, hn, Bool.false_eq_true, if_false]

theorem bump_to (i : Iter) (lo : Nat) (ha : 0 ≤ i.addNext) (hlo : (i.off : Int) + i.addNext = lo) :
    i.bump = .ok lo := by
  rw [bump_ok i ha]
  congr 1
  omega

/-- Element step of `Advance`: from a cursor whose next position `off + addNext` lies in the gap before the
    node `v`, `Advance` lands on `v` (cursor one past its first word, tag and payload of that word),
    reports `v`'s type, and the next `Advance` will start at `v.fin`. -/
theorem advance_node (pj : PJ) (i : Iter) (lo : Nat) (v : LVal) (g : Gap pj lo v.pos) (hok : Ok pj v)
    (hfin : v.fin ≤ i.lim) (ha : 0 ≤ i.addNext) (hlo : (i.off : Int) + i.addNext = lo) :
    ∃ w, word pj v.pos = some w ∧ tagOf w = tagOfL v ∧
      Iter.advance pj i = .ok ({ lim := i.lim, off := v.pos + 1, addNext := (v.fin : Int) - ((v.pos + 1 : Nat) : Int),
                                 cur := payloadOf w, t := tagOf w }, tagToType (tagOfL v)) := by
  obtain ⟨w, hw, ht⟩ := ok_head pj v hok
  have hpf := pos_lt_fin v pj hok
  refine ⟨w, hw, ht, ?_⟩
  unfold Iter.advance
  rw [bump_to i lo ha hlo]
  simp only [Res.bind_ok]
  rw [advanceLoop_gap pj i g (by omega), advanceLoop_live pj i hw (by rw [ht]; exact tagOfL_ne_nop v) (by omega)]
  simp only [Res.bind_ok, Bool.not_true, Bool.false_eq_true, if_false]
  rw [(calcNext_of pj v hok { i with off := v.pos + 1, cur := payloadOf w, t := tagOf w } w hw rfl rfl rfl).1]
  have hnn : ¬ ((v.fin : Int) - ((v.pos + 1 : Nat) : Int) < 0) := by omega
  simp only [hnn, if_false, ht]

/-- In the statement's shape: over `OkElems`. -/
theorem advance_elem (pj : PJ) (i : Iter) (v : LVal) (vs : LVals) (lo hi : Nat)
    (h : OkElems pj (.cons v vs) lo hi) (hhi : hi ≤ i.lim) (ha : 0 ≤ i.addNext)
    (hlo : (i.off : Int) + i.addNext = lo) :
    ∃ i', Iter.advance pj i = .ok (i', tagToType (tagOfL v)) ∧ i'.lim = i.lim ∧ i'.off = v.pos + 1 ∧
      (∃ w, word pj v.pos = some w ∧ i'.t = tagOf w ∧ i'.cur = payloadOf w ∧ tagOf w = tagOfL v) ∧
      0 ≤ i'.addNext ∧ (i'.off : Int) + i'.addNext = v.fin ∧ OkElems pj vs v.fin hi := by
  simp only [OkElems] at h
  obtain ⟨g, hok, hfin, rest⟩ := h
  obtain ⟨w, hw, ht, he⟩ := advance_node pj i lo v g hok (by omega) ha hlo
  have hpf := pos_lt_fin v pj hok
  exact ⟨_, he, rfl, rfl, ⟨w, hw, rfl, rfl, ht⟩, by simp only; omega, by simp only; omega, rest⟩

/-- End of the elements: after the last element only a gap remains, followed by the end of the view or by a
    word that is not a value (an end tag): `Advance` reports `TypeNone`. -/
theorem advance_end (pj : PJ) (i : Iter) (lo hi : Nat) (g : Gap pj lo hi) (hhi : hi ≤ i.lim)
    (hend : hi = i.lim ∨ ∃ c, word pj hi = some c ∧ (tagOf c == tagNop) = false ∧ tagToType (tagOf c) = typeNone)
    (ha : 0 ≤ i.addNext) (hlo : (i.off : Int) + i.addNext = lo) :
    ∃ i', Iter.advance pj i = .ok (i', typeNone) := by
  unfold Iter.advance
  rw [bump_to i lo ha hlo]
  simp only [Res.bind_ok]
  obtain ⟨c0, _, e0, _, _⟩ := loops_gap pj i g hhi
  rw [e0]
  rcases hend with he | ⟨c, hc, hn, hty⟩
  · rw [Iter.advanceLoop]
    have : hi ≥ i.lim := by omega
    simp only [this, dite_true, Res.bind_ok, Bool.not_false, if_true]
    exact ⟨_, rfl⟩
  · by_cases hlt : hi < i.lim
    · rw [advanceLoop_live pj { i with cur := c0 } hc hn hlt]
      simp only [Res.bind_ok, Bool.not_true, Bool.false_eq_true, if_false]
      split
      · exact ⟨_, rfl⟩
      · rw [(calcNext_fields _ false).2.2.2]
        simp only [hty]
        exact ⟨_, rfl⟩
    · rw [Iter.advanceLoop]
      have : hi ≥ i.lim := by omega
      simp only [this, dite_true, Res.bind_ok, Bool.not_false, if_true]
      exact ⟨_, rfl⟩

/-! ## 3. Read-back -/

mutual
/-- what an in-order consumer observes of a located document -/
def toOVal : LVal → OVal
  | .null _ => .null
  | .bool b _ => .bool b
  | .int w _ => .int (toInt64 w)
  | .uint w _ => .uint w.toNat
  | .float b f _ => .float b f
  | .str s _ => .str s.toArray
  | .arr _ _ es => .arr (toOVals es)
  | .obj _ _ ms => .obj (toOMems ms)
def toOVals : LVals → List OVal
  | .nil => []
  | .cons v vs => toOVal v :: toOVals vs
def toOMems : LMems → List (Bytes × OVal)
  | .nil => []
  | .cons _ k v ms => (k.toArray, toOVal v) :: toOMems ms
end

mutual
/-- every member value starts right after its key (no NOP between a key and its value), hereditarily.
    `NextElementBytes` reads the value word at `key + 2` WITHOUT skipping NOPs (see `neb_gap_counterexample`),
    so this is the shape on which the `Object` walk is exact; parsing and every edit of the API
    (`DeleteElems` removes key and value together, `Set*` keep the first word in place) produce it. -/
def Tight : LVal → Prop
  | .null _ => True
  | .bool _ _ => True
  | .int _ _ => True
  | .uint _ _ => True
  | .float _ _ _ => True
  | .str _ _ => True
  | .arr _ _ es => TightVs es
  | .obj _ _ ms => TightMs ms
def TightVs : LVals → Prop
  | .nil => True
  | .cons v vs => Tight v ∧ TightVs vs
def TightMs : LMems → Prop
  | .nil => True
  | .cons pk _ v ms => v.pos = pk + 2 ∧ Tight v ∧ TightMs ms
end

theorem type_of (i : Iter) (h : (i.off : Int) + i.addNext ≤ i.lim) : i.type = tagToType i.t := by
  unfold Iter.type
  have : ¬ ((i.off : Int) + i.addNext > i.lim) := by omega
  simp only [this, if_false]

theorem valWord_of (pj : PJ) (i : Iter) {x : UInt64} (hl : i.off < i.lim) (hw : word pj i.off = some x) :
    Iter.valWord pj i = .ok x := by
  unfold Iter.valWord
  have : ¬ i.off ≥ i.lim := by omega
  simp only [this, if_false, rdT_word hw]

theorem owalkValue_object (pj : PJ) (i : Iter) (fuel : Nat) (h : i.type = typeObject) :
    owalkValue pj i (fuel + 1) = (do let o ← i.object; let ms ← owalkObj pj o [] fuel; .ok (.obj ms)) := by
  rw [owalkValue]; simp only [h]; rfl
theorem owalkValue_array (pj : PJ) (i : Iter) (fuel : Nat) (h : i.type = typeArray) :
    owalkValue pj i (fuel + 1) = (do let a ← i.array; let es ← owalkArr pj a.iter [] fuel; .ok (.arr es)) := by
  rw [owalkValue]; simp only [h]; rfl
theorem owalkValue_string (pj : PJ) (i : Iter) (fuel : Nat) (h : i.type = typeString) :
    owalkValue pj i (fuel + 1) = (do let s ← i.stringBytes pj; .ok (.str s)) := by
  rw [owalkValue]; simp only [h]; rfl
theorem owalkValue_int (pj : PJ) (i : Iter) (fuel : Nat) (h : i.type = typeInt) :
    owalkValue pj i (fuel + 1) = (do let v ← i.int pj; .ok (.int v)) := by
  rw [owalkValue]; simp only [h]; rfl
theorem owalkValue_uint (pj : PJ) (i : Iter) (fuel : Nat) (h : i.type = typeUint) :
    owalkValue pj i (fuel + 1) = (do let v ← i.uint pj; .ok (.uint v)) := by
  rw [owalkValue]; simp only [h]; rfl
theorem owalkValue_float (pj : PJ) (i : Iter) (fuel : Nat) (h : i.type = typeFloat) :
    owalkValue pj i (fuel + 1) = (do let (b, f) ← i.floatFlags pj; .ok (.float b f)) := by
  rw [owalkValue]; simp only [h]; rfl
theorem owalkValue_bool (pj : PJ) (i : Iter) (fuel : Nat) (h : i.type = typeBool) :
    owalkValue pj i (fuel + 1) = (do let b ← i.bool; .ok (.bool b)) := by
  rw [owalkValue]; simp only [h]; rfl
theorem owalkValue_null (pj : PJ) (i : Iter) (fuel : Nat) (h : i.type = typeNull) :
    owalkValue pj i (fuel + 1) = .ok .null := by
  rw [owalkValue]; simp only [h]; rfl

theorem tagToType_tagOfL_ne_none (v : LVal) : (tagToType (tagOfL v) == typeNone) = false := by
  rw [SJ.Tables.tagToType_spec]
  cases v <;> simp only [tagOfL] <;> first | decide | (rename_i b _; cases b <;> decide)

theorem intoNext_le (pj : PJ) (v : LVal) (h : Ok pj v) : ((v.pos + 1 : Nat) : Int) + intoNext v ≤ v.fin ∧ 0 ≤ intoNext v := by
  cases v <;> simp only [LVal.pos, LVal.fin, intoNext] <;> (try simp only [Ok] at h) <;> omega

/-- Member step of `NextElementBytes` at a key whose value follows immediately: returns the key bytes, the
    value's type, a cursor on the value restricted to the value's words, and moves the object cursor to the
    end of the value. -/
theorem nextElementBytes_member (pj : PJ) (lim pk : Nat) (k : List UInt8) (v : LVal) (fuel : Nat)
    (hs : StrAt pj k pk) (hp : v.pos = pk + 2) (hok : Ok pj v) (hfin : v.fin < lim) :
    ∃ w, word pj v.pos = some w ∧ tagOf w = tagOfL v ∧
      View.nextElementBytes pj { lim := lim, off := pk } (fuel + 1) =
        .ok ({ lim := lim, off := v.fin },
             some (k.toArray, { lim := v.fin, off := v.pos + 1, addNext := intoNext v, cur := payloadOf w, t := tagOf w },
                   tagToType (tagOfL v))) := by
  obtain ⟨w, hw, ht⟩ := ok_head pj v hok
  obtain ⟨kw, len, hkw, hlen, hkt, hstr⟩ := hs
  have hpf := pos_lt_fin v pj hok
  refine ⟨w, hw, ht, ?_⟩
  rw [View.nextElementBytes]
  have h1 : ¬ pk ≥ lim := by omega
  have h2 : ¬ pk + 2 ≥ lim := by omega
  rw [hp] at hw
  simp only [h1, h2, if_false, rd_word hkw, rd_word hlen, rd_word hw, Res.bind_ok, hkt, beq_self_eq_true, if_true, hstr]
  obtain ⟨c1, c2⟩ := calcNext_of pj v hok
    { lim := lim, off := pk + 2 + 1, addNext := 0, cur := payloadOf w, t := tagOf w } w (by rw [hp]; exact hw) rfl rfl (by rw [hp])
  rw [c1, c2]
  simp only
  have e1 : ¬ ((v.fin : Int) - ((v.pos + 1 : Nat) : Int) < 0) := by omega
  have e2 : ((pk + 2 + 1 : Nat) : Int) + ((v.fin : Int) - ((v.pos + 1 : Nat) : Int)) = (v.fin : Int) := by omega
  have e3 : ¬ ((v.fin : Int) > (lim : Int)) := by omega
  simp only [e1, e2, e3, if_false, Int.toNat_natCast, ht]
  rw [hp]

theorem tt_null : tagToType tagNull = typeNull := by rw [SJ.Tables.tagToType_spec]; decide
theorem tt_true : tagToType tagBoolTrue = typeBool := by rw [SJ.Tables.tagToType_spec]; decide
theorem tt_false : tagToType tagBoolFalse = typeBool := by rw [SJ.Tables.tagToType_spec]; decide
theorem tt_int : tagToType tagInteger = typeInt := by rw [SJ.Tables.tagToType_spec]; decide
theorem tt_uint : tagToType tagUint = typeUint := by rw [SJ.Tables.tagToType_spec]; decide
theorem tt_float : tagToType tagFloat = typeFloat := by rw [SJ.Tables.tagToType_spec]; decide
theorem tt_string : tagToType tagString = typeString := by rw [SJ.Tables.tagToType_spec]; decide
theorem tt_array : tagToType tagArrayStart = typeArray := by rw [SJ.Tables.tagToType_spec]; decide
theorem tt_object : tagToType tagObjectStart = typeObject := by rw [SJ.Tables.tagToType_spec]; decide
theorem tt_arrayEnd : tagToType tagArrayEnd = typeNone := by rw [SJ.Tables.tagToType_spec]; decide
theorem tt_objectEnd : tagToType tagObjectEnd = typeNone := by rw [SJ.Tables.tagToType_spec]; decide
theorem tt_root : tagToType tagRoot = typeRoot := by rw [SJ.Tables.tagToType_spec]; decide

/-- a cursor positioned on the node `v`: one past its first word, holding that word's tag and payload -/
def OnNode (pj : PJ) (v : LVal) (i : Iter) : Prop :=
  i.off = v.pos + 1 ∧ (∃ w, word pj v.pos = some w ∧ i.t = tagOf w ∧ i.cur = payloadOf w) ∧
  v.fin ≤ i.lim ∧ (i.off : Int) + i.addNext ≤ i.lim

/-- the hypothesis shape shared by the three walkers' statements; the fuel bounds are those of
    `WalkSafe.owalk_family_safe` -/
theorem owalk_family (pj : PJ) : ∀ fuel : Nat,
    (∀ (v : LVal) (i : Iter), Ok pj v → Tight v → OnNode pj v i → 2 * (i.lim - i.off) + 2 < fuel →
      owalkValue pj i fuel = .ok (toOVal v)) ∧
    (∀ (ms : LMems) (o : View) (acc : List (Bytes × OVal)) (hi : Nat), OkMems pj ms o.off hi → TightMs ms →
      hi < o.lim → (∃ c, word pj hi = some c ∧ tagOf c = tagObjectEnd) → 2 * (o.lim - o.off) + 1 < fuel →
      owalkObj pj o acc fuel = .ok (acc.reverse ++ toOMems ms)) ∧
    (∀ (vs : LVals) (i : Iter) (acc : List OVal) (lo hi : Nat), OkElems pj vs lo hi → TightVs vs →
      hi ≤ i.lim → (hi = i.lim ∨ ∃ c, word pj hi = some c ∧ (tagOf c == tagNop) = false ∧ tagToType (tagOf c) = typeNone) →
      0 ≤ i.addNext → (i.off : Int) + i.addNext = lo → 2 * (i.lim - i.off) + 1 < fuel →
      owalkArr pj i acc fuel = .ok (acc.reverse ++ toOVals vs)) := by
  intro fuel
  induction fuel with
  | zero => exact ⟨fun _ _ _ _ _ h => by omega, fun _ _ _ _ _ _ _ _ h => by omega, fun _ _ _ _ _ _ _ _ _ _ _ h => by omega⟩
  | succ n ih =>
    obtain ⟨ihV, ihO, ihA⟩ := ih
    refine ⟨?_, ?_, ?_⟩
    · -- values
      intro v i hok htight ⟨hoff, ⟨w, hw, hit, hic⟩, hfin, hadd⟩ hf
      have htype := type_of i hadd
      cases v with
      | null p =>
        simp only [Ok, LVal.pos] at hok hw
        obtain ⟨w', a, b⟩ := hok
        cases word_inj hw a
        rw [owalkValue_null pj i n (by rw [htype, hit, b, tt_null])]
        rfl
      | bool bb p =>
        simp only [Ok, LVal.pos] at hok hw
        obtain ⟨w', a, b⟩ := hok
        cases word_inj hw a
        rw [owalkValue_bool pj i n (by rw [htype, hit, b]; cases bb <;> simp only [if_true, Bool.false_eq_true, if_false, tt_true, tt_false])]
        unfold Iter.bool
        rw [hit, b]
        cases bb
        · simp only [Bool.false_eq_true, if_false, show (tagBoolFalse == tagBoolTrue) = false from by decide,
            beq_self_eq_true, if_true, Res.bind_ok, toOVal]
        · simp only [if_true, beq_self_eq_true, Res.bind_ok, toOVal]
      | int x p =>
        simp only [Ok, LVal.pos, LVal.fin] at hok hw hfin hoff
        obtain ⟨w', a, b, hx⟩ := hok
        cases word_inj hw a
        rw [owalkValue_int pj i n (by rw [htype, hit, b, tt_int])]
        unfold Iter.int
        rw [hit, b, valWord_of pj i (by omega) (by rw [hoff]; exact hx)]
        simp only [show (tagInteger == tagFloat) = false from by decide, beq_self_eq_true, if_true,
          Bool.false_eq_true, if_false, Res.bind_ok, toOVal]
      | uint x p =>
        simp only [Ok, LVal.pos, LVal.fin] at hok hw hfin hoff
        obtain ⟨w', a, b, hx⟩ := hok
        cases word_inj hw a
        rw [owalkValue_uint pj i n (by rw [htype, hit, b, tt_uint])]
        unfold Iter.uint
        rw [hit, b, valWord_of pj i (by omega) (by rw [hoff]; exact hx)]
        simp only [show (tagUint == tagFloat) = false from by decide, show (tagUint == tagInteger) = false from by decide,
          beq_self_eq_true, if_true, Bool.false_eq_true, if_false, Res.bind_ok, toOVal]
      | float x f p =>
        simp only [Ok, LVal.pos, LVal.fin] at hok hw hfin hoff
        obtain ⟨w', a, b, hfl, hx⟩ := hok
        cases word_inj hw a
        rw [owalkValue_float pj i n (by rw [htype, hit, b, tt_float])]
        unfold Iter.floatFlags
        rw [hit, b, valWord_of pj i (by omega) (by rw [hoff]; exact hx), hic, hfl]
        simp only [beq_self_eq_true, if_true, Res.bind_ok, toOVal]
      | str st p =>
        simp only [Ok, StrAt, LVal.pos, LVal.fin] at hok hw hfin hoff
        obtain ⟨w', len, a, hlen, b, hstr⟩ := hok
        cases word_inj hw a
        rw [owalkValue_string pj i n (by rw [htype, hit, b, tt_string])]
        unfold Iter.stringBytes
        rw [hit, b, valWord_of pj i (by omega) (by rw [hoff]; exact hlen), hic]
        simp only [bne_self_eq_false, Bool.false_eq_true, if_false, Res.bind_ok, hstr, toOVal]
      | arr p e es =>
        simp only [Ok, LVal.pos, LVal.fin] at hok hw hfin hoff
        obtain ⟨hpe, ⟨w', a, b, hpl⟩, ⟨c, hc, hct, _⟩, hes⟩ := hok
        cases word_inj hw a
        rw [owalkValue_array pj i n (by rw [htype, hit, b, tt_array])]
        unfold Iter.array
        rw [hit, b, hic, hpl]
        have hle : ¬ i.lim < e := by omega
        simp only [bne_self_eq_false, Bool.false_eq_true, if_false, hle, Res.bind_ok]
        simp only [Tight] at htight
        rw [ihA es (View.iter { lim := e, off := i.off }) [] (p + 1) (e - 1) hes htight
          (by show e - 1 ≤ e; omega) (Or.inr ⟨c, hc, by rw [hct]; decide, by rw [hct]; exact tt_arrayEnd⟩)
          (by show (0 : Int) ≤ 0; omega) (by show ((i.off : Nat) : Int) + 0 = _; omega)
          (by show 2 * (e - i.off) + 1 < n; omega)]
        simp only [Res.bind_ok, toOVal, List.reverse_nil, List.nil_append]
      | obj p e ms =>
        simp only [Ok, LVal.pos, LVal.fin] at hok hw hfin hoff
        obtain ⟨hpe, ⟨w', a, b, hpl⟩, ⟨c, hc, hct, _⟩, hms⟩ := hok
        cases word_inj hw a
        rw [owalkValue_object pj i n (by rw [htype, hit, b, tt_object])]
        unfold Iter.object
        rw [hit, b, hic, hpl]
        have hle : ¬ i.lim < e := by omega
        have hle2 : ¬ e < i.off := by omega
        simp only [bne_self_eq_false, Bool.false_eq_true, if_false, hle, hle2, Res.bind_ok]
        simp only [Tight] at htight
        rw [ihO ms { lim := e, off := i.off } [] (e - 1) (by rw [hoff]; exact hms) htight
          (by show e - 1 < e; omega) ⟨c, hc, hct⟩ (by show 2 * (e - i.off) + 1 < n; omega)]
        simp only [Res.bind_ok, toOVal, List.reverse_nil, List.nil_append]
    · -- objects
      intro ms o acc hi hms htight hlt ⟨c, hc, hct⟩ hf
      obtain ⟨lim, off⟩ := o
      simp only at hms hlt hf
      rw [owalkObj]
      cases ms with
      | nil =>
        simp only [OkMems] at hms
        obtain ⟨f', hf1, hf2, he⟩ := nextElementBytes_gap_fuel pj lim hms (by omega) n (by have := hms.1; omega)
        rw [he]
        obtain ⟨f'', rfl⟩ : ∃ f'', f' = f'' + 1 := ⟨f' - 1, by omega⟩
        rw [View.nextElementBytes]
        have h1 : ¬ hi ≥ lim := by omega
        simp only [h1, if_false, rd_word hc, Res.bind_ok, hct, show (tagObjectEnd == tagString) = false from by decide,
          Bool.false_eq_true, beq_self_eq_true, if_true, toOMems, List.append_nil]
      | cons pk k v ms =>
        simp only [OkMems] at hms
        obtain ⟨g1, hs, g2, hok, hfin, rest⟩ := hms
        simp only [TightMs] at htight
        obtain ⟨hp, htv, htms⟩ := htight
        have hpf := pos_lt_fin v pj hok
        have hg1 := g1.1
        obtain ⟨f', hf1, hf2, he⟩ := nextElementBytes_gap_fuel pj lim g1 (by omega) n (by omega)
        rw [he]
        obtain ⟨f'', rfl⟩ : ∃ f'', f' = f'' + 1 := ⟨f' - 1, by omega⟩
        obtain ⟨w, hw, ht, hne⟩ := nextElementBytes_member pj lim pk k v f'' hs hp hok (by omega)
        rw [hne]
        simp only [Res.bind_ok, tagToType_tagOfL_ne_none v, Bool.false_eq_true, if_false]
        have hin := intoNext_le pj v hok
        rw [ihV v _ hok htv ⟨rfl, ⟨w, hw, rfl, rfl⟩, Nat.le_refl _, by simp only; omega⟩ (by simp only; omega)]
        simp only [Res.bind_ok]
        rw [ihO ms { lim := lim, off := v.fin } _ hi rest htms hlt ⟨c, hc, hct⟩ (by simp only; omega)]
        simp only [toOMems, List.reverse_cons, List.append_assoc, List.singleton_append]
    · -- arrays
      intro vs i acc lo hi hvs htight hhi hend ha hlo hf
      rw [owalkArr]
      cases vs with
      | nil =>
        simp only [OkElems] at hvs
        obtain ⟨i', he⟩ := advance_end pj i lo hi hvs hhi hend ha hlo
        rw [he]
        simp only [Res.bind_ok, beq_self_eq_true, if_true, toOVals, List.append_nil]
      | cons v vs =>
        obtain ⟨i', he, hlim, hoff, hw, ha', hnext, rest⟩ := advance_elem pj i v vs lo hi hvs hhi ha hlo
        simp only [OkElems] at hvs
        obtain ⟨g, hok, hfin, _⟩ := hvs
        simp only [TightVs] at htight
        have hpf := pos_lt_fin v pj hok
        have hg := g.1
        rw [he]
        simp only [Res.bind_ok, tagToType_tagOfL_ne_none v, Bool.false_eq_true, if_false]
        rw [ihV v i' hok htight.1 ⟨hoff, (by obtain ⟨w, a, b, c, _⟩ := hw; exact ⟨w, a, b, c⟩), by omega, by omega⟩ (by omega)]
        simp only [Res.bind_ok]
        rw [ihA vs i' _ v.fin hi rest htight.2 (by omega) (by rw [hlim]; exact hend) ha' hnext (by omega)]
        simp only [toOVals, List.reverse_cons, List.append_assoc, List.singleton_append]

/-- 3 (values). A cursor positioned on a node reads exactly that node. -/
theorem owalkValue_node (pj : PJ) (v : LVal) (i : Iter) (fuel : Nat) (hok : Ok pj v) (ht : Tight v)
    (hon : OnNode pj v i) (hf : 2 * (i.lim - i.off) + 2 < fuel) :
    owalkValue pj i fuel = .ok (toOVal v) :=
  (owalk_family pj fuel).1 v i hok ht hon hf

/-- … with the fuel the API wrappers use. -/
theorem owalkValue_node_fuelOf (pj : PJ) (v : LVal) (i : Iter) (hok : Ok pj v) (ht : Tight v)
    (hon : OnNode pj v i) (hl : i.lim ≤ pj.tape.size) :
    owalkValue pj i (fuelOf pj) = .ok (toOVal v) :=
  owalkValue_node pj v i _ hok ht hon (fuelOf_gt pj _ _ hl)

/-- 3 (arrays). The `Array` view of an array node, iterated with `Advance`, yields the elements in order. -/
theorem owalkArr_arr (pj : PJ) (p e : Nat) (es : LVals) (cur : UInt64) (t : UInt8) (fuel : Nat)
    (hok : Ok pj (.arr p e es)) (ht : TightVs es) (hf : 2 * (e - (p + 1)) + 1 < fuel) :
    owalkArr pj { lim := e, off := p + 1, addNext := 0, cur := cur, t := t } [] fuel = .ok (toOVals es) := by
  simp only [Ok] at hok
  obtain ⟨hpe, _, ⟨c, hc, hct, _⟩, hes⟩ := hok
  have := (owalk_family pj fuel).2.2 es { lim := e, off := p + 1, addNext := 0, cur := cur, t := t } [] (p + 1) (e - 1)
    hes ht (by show e - 1 ≤ e; omega) (Or.inr ⟨c, hc, by rw [hct]; decide, by rw [hct]; exact tt_arrayEnd⟩)
    (Int.le_refl _) (by show ((p + 1 : Nat) : Int) + 0 = _; omega) hf
  simpa using this

theorem owalkArr_arr_fuelOf (pj : PJ) (p e : Nat) (es : LVals) (cur : UInt64) (t : UInt8)
    (hok : Ok pj (.arr p e es)) (ht : TightVs es) (hl : e ≤ pj.tape.size) :
    owalkArr pj { lim := e, off := p + 1, addNext := 0, cur := cur, t := t } [] (fuelOf pj) = .ok (toOVals es) :=
  owalkArr_arr pj p e es cur t _ hok ht (by have := fuelOf_gt pj e (p + 1) hl; omega)

/-- 3 (objects). The `Object` view of an object node, iterated with `NextElementBytes`, yields the members in
    source order, duplicates included. -/
theorem owalkObj_obj (pj : PJ) (p e : Nat) (ms : LMems) (fuel : Nat)
    (hok : Ok pj (.obj p e ms)) (ht : TightMs ms) (hf : 2 * (e - (p + 1)) + 1 < fuel) :
    owalkObj pj { lim := e, off := p + 1 } [] fuel = .ok (toOMems ms) := by
  simp only [Ok] at hok
  obtain ⟨hpe, _, ⟨c, hc, hct, _⟩, hms⟩ := hok
  have := (owalk_family pj fuel).2.1 ms { lim := e, off := p + 1 } [] (e - 1) hms ht (by show e - 1 < e; omega) ⟨c, hc, hct⟩ hf
  simpa using this

theorem owalkObj_obj_fuelOf (pj : PJ) (p e : Nat) (ms : LMems)
    (hok : Ok pj (.obj p e ms)) (ht : TightMs ms) (hl : e ≤ pj.tape.size) :
    owalkObj pj { lim := e, off := p + 1 } [] (fuelOf pj) = .ok (toOMems ms) :=
  owalkObj_obj pj p e ms _ hok ht (by have := fuelOf_gt pj e (p + 1) hl; omega)

/-! ### Why `Tight` is needed: `NextElementBytes` does not skip NOPs between a key and its value -/

/-- the object `{"a":5}` with one NOP entry between the key and the value -/
def cexPJ : PJ :=
  { tape := #[mkWord tagObjectStart 7, mkWord tagString 0, 1, mkWord tagNop 1, mkWord tagInteger 0, 5,
              mkWord tagObjectEnd 0],
    strings := #[], msg := #[97] }
def cexDoc : LVal := .obj 0 7 (.cons 1 [97] (.int 5 4) .nil)

def isOkNil : Res (List (Bytes × OVal)) → Bool
  | .ok [] => true
  | _ => false
theorem isOkNil_eq {r : Res (List (Bytes × OVal))} (h : isOkNil r = true) : r = .ok [] := by
  cases r with
  | ok l => cases l with
    | nil => rfl
    | cons _ _ => cases h
  | error _ => cases h
  | panic => cases h
  | diverge => cases h

/-- COUNTEREXAMPLE to the object half of item 3 without `Tight`: the tape holds the located document `cexDoc`
    (`Ok`, hence `ValAt … (erase cexDoc)`: the Layout relation allows a gap between key and value), but the
    `NextElementBytes` walk reports NO members — it reads the NOP at `key + 2` as the value word, gets
    `TypeNone`, and the consumer's `if t == TypeNone { break }` ends the loop — whereas the `Advance`-based
    `ForEach` does make its one callback. -/
theorem neb_gap_counterexample :
    Ok cexPJ cexDoc ∧ toOMems (.cons 1 [97] (.int 5 4) .nil) = [(#[97], .int 5)] ∧
    owalkObj cexPJ { lim := 7, off := 1 } [] (fuelOf cexPJ) = .ok [] ∧
    (match View.forEach cexPJ [] (View.iter { lim := 7, off := 1 }) 0 #[] (fuelOf cexPJ) with
      | .ok cbs => cbs.size == 1 | _ => false) = true := by
  refine ⟨?_, rfl, isOkNil_eq (by decide +kernel), by decide +kernel⟩
  simp only [cexDoc, Ok, OkMems, StrAt, LVal.pos, LVal.fin]
  refine ⟨by omega, ⟨_, rfl, by decide, by decide⟩, ⟨_, rfl, by decide, by decide⟩, gap_refl _ _,
    ⟨_, _, rfl, rfl, by decide, rfl⟩, ?_, ⟨_, rfl, by decide, rfl⟩, by omega, gap_refl _ _⟩
  refine ⟨by omega, fun k h1 h2 => ?_⟩
  have : k = 3 := by omega
  subst this
  exact ⟨_, rfl, by decide, by decide, by decide⟩

/-! ## 4. The whole document -/

/-- `AdvanceInto` lands on the node after a gap (the analogue of `advance_node`): `addNext` is then 1 for the
    two-word values and 0 otherwise. -/
theorem advanceInto_node (pj : PJ) (i : Iter) (lo : Nat) (v : LVal) (g : Gap pj lo v.pos) (hok : Ok pj v)
    (hfin : v.fin ≤ i.lim) (ha : 0 ≤ i.addNext) (hlo : (i.off : Int) + i.addNext = lo) :
    ∃ w, word pj v.pos = some w ∧ tagOf w = tagOfL v ∧
      Iter.advanceInto pj i = .ok ({ lim := i.lim, off := v.pos + 1, addNext := intoNext v,
                                     cur := payloadOf w, t := tagOf w }, tagOf w) := by
  obtain ⟨w, hw, ht⟩ := ok_head pj v hok
  have hpf := pos_lt_fin v pj hok
  refine ⟨w, hw, ht, ?_⟩
  unfold Iter.advanceInto
  rw [bump_to i lo ha hlo]
  simp only [Res.bind_ok]
  rw [advanceIntoLoop_gap pj i g (by omega), advanceIntoLoop_live pj i hw (by rw [ht]; exact tagOfL_ne_nop v) (by omega)]
  simp only [Res.bind_ok, Bool.not_true, Bool.false_eq_true, if_false]
  rw [(calcNext_of pj v hok { i with off := v.pos + 1, cur := payloadOf w, t := tagOf w } w hw rfl rfl rfl).2]
  have hnn : ¬ (intoNext v < 0) := by have := (intoNext_le pj v hok).2; omega
  simp only [hnn, if_false]

theorem calcNext_root (i : Iter) (h : i.t = tagRoot) :
    i.calcNext false = { i with addNext := (i.cur.toNat : Int) - i.off } ∧
    i.calcNext true = { i with addNext := 0 } := by
  unfold Iter.calcNext
  rw [h]
  simp only [show inCase (caseOf swCalcNext 0) tagRoot = false from by decide,
    show inCase (caseOf swCalcNext 1) tagRoot = true from by decide, Bool.false_eq_true, if_false, if_true]
  refine ⟨?_, ?_⟩ <;> first | trivial | rfl

/-- the tape holds the root entry `[q, e)` whose content is the located value `v` -/
def OkRoot (pj : PJ) (v : LVal) (q e : Nat) : Prop :=
  q + 2 ≤ e ∧ (∃ w, word pj q = some w ∧ tagOf w = tagRoot ∧ (payloadOf w).toNat = e) ∧
  (∃ c, word pj (e - 1) = some c ∧ tagOf c = tagRoot ∧ (payloadOf c).toNat = q) ∧
  Gap pj (q + 1) v.pos ∧ Ok pj v ∧ Gap pj v.fin (e - 1)

/-- the tape from `p` on holds the root entries of the located values `vs`, gaps allowed between them -/
def OkRoots (pj : PJ) : List LVal → Nat → Prop
  | [], p => Gap pj p pj.tape.size
  | v :: vs, p => ∃ q e, Gap pj p q ∧ OkRoot pj v q e ∧ OkRoots pj vs e

theorem okRoot_rootAt {pj : PJ} {v : LVal} {q e : Nat} (h : OkRoot pj v q e) : RootAt pj (erase v) q e := by
  obtain ⟨h1, h2, h3, g1, hok, g2⟩ := h
  exact ⟨h1, h2, h3, v.pos, v.fin, g1, ok_valAt pj v hok, g2⟩

/-- located roots witness the Layout relation `WF` for the documents they erase to -/
theorem okRoots_rootsAt {pj : PJ} : ∀ (vs : List LVal) (p : Nat), OkRoots pj vs p → RootsAt pj (vs.map erase) p
  | [], p, h => h
  | v :: vs, p, h => by
    obtain ⟨q, e, g, hr, rest⟩ := h
    exact ⟨q, e, g, okRoot_rootAt hr, okRoots_rootsAt vs e rest⟩

/-- `AdvanceIter` on a root entry: the receiver steps over the whole entry, `dst` is restricted to it -/
theorem advanceIter_root (pj : PJ) (i d : Iter) (lo q e : Nat) (g : Gap pj lo q)
    (hr : ∃ w, word pj q = some w ∧ tagOf w = tagRoot ∧ (payloadOf w).toNat = e) (hqe : q + 2 ≤ e)
    (he : e ≤ i.lim) (ha : 0 ≤ i.addNext) (hlo : (i.off : Int) + i.addNext = lo) :
    ∃ w, word pj q = some w ∧ tagOf w = tagRoot ∧
      Iter.advanceIter pj i d =
        .ok ({ lim := i.lim, off := q + 1, addNext := (e : Int) - ((q + 1 : Nat) : Int), cur := payloadOf w, t := tagRoot },
             { lim := e, off := q + 1, addNext := 0, cur := payloadOf w, t := tagRoot }, typeRoot) := by
  obtain ⟨w, hw, ht, hp⟩ := hr
  refine ⟨w, hw, ht, ?_⟩
  unfold Iter.advanceIter
  rw [bump_to i lo ha hlo]
  simp only [Res.bind_ok]
  rw [advanceIterLoop_gap pj i g (by omega), advanceIterLoop_live pj i hw (by rw [ht]; decide) (by omega)]
  simp only [Res.bind_ok, Bool.not_true, Bool.false_eq_true, if_false]
  obtain ⟨c1, _⟩ := calcNext_root { i with off := q + 1, cur := payloadOf w, t := tagOf w } ht
  rw [c1]
  simp only [hp]
  obtain ⟨_, c2⟩ := calcNext_root { lim := i.lim, off := q + 1, addNext := (e : Int) - ((q + 1 : Nat) : Int), cur := payloadOf w, t := tagOf w } ht
  rw [c2]
  have e1 : ¬ ((e : Int) - ((q + 1 : Nat) : Int) < 0) := by omega
  have e2 : q + 1 + ((e : Int) - ((q + 1 : Nat) : Int)).toNat = e := by omega
  have e3 : ¬ (e > i.lim) := by omega
  simp only [e1, e2, e3, if_false, Int.lt_irrefl, ht, tt_root]

/-- `AdvanceIter` at the end of the tape: the receiver is parked at the end of its view; its payload register holds
    the skip count of the last NOP word stepped on (the old payload if there was none) -/
theorem advanceIter_end (pj : PJ) (i d : Iter) (lo : Nat) (g : Gap pj lo i.lim)
    (ha : 0 ≤ i.addNext) (hlo : (i.off : Int) + i.addNext = lo) :
    ∃ c, (lo = i.lim → c = i.cur) ∧
      Iter.advanceIter pj i d = .ok ({ i with off := i.lim, addNext := 0, cur := c, t := tagEnd }, d, typeNone) := by
  unfold Iter.advanceIter
  rw [bump_to i lo ha hlo]
  simp only [Res.bind_ok]
  obtain ⟨c, hc, _, _, e⟩ := loops_gap pj i g (Nat.le_refl _)
  refine ⟨c, hc, ?_⟩
  rw [e, Iter.advanceIterLoop]
  simp only [if_true, Res.bind_ok, Bool.not_false]

/-- pointwise relation of two lists (core has no `Forall2`) -/
inductive Forall2 {α β : Type} (R : α → β → Prop) : List α → List β → Prop
  | nil : Forall2 R [] []
  | cons {a b l₁ l₂} : R a b → Forall2 R l₁ l₂ → Forall2 R (a :: l₁) (b :: l₂)

/-- an iterator handed out by `ParsedJson.ForEach` for the root content `v` -/
def RootIter (pj : PJ) (v : LVal) (it : Iter) : Prop := Ok pj v ∧ OnNode pj v it ∧ it.lim ≤ pj.tape.size

/-- `ParsedJson.ForEach` hands out one iterator per root entry, in order, each positioned on the root's content -/
theorem pjForEach_roots (pj : PJ) : ∀ (fuel : Nat) (vs : List LVal) (i : Iter) (acc : Array Iter) (lo : Nat),
    OkRoots pj vs lo → i.lim = pj.tape.size → 0 ≤ i.addNext → (i.off : Int) + i.addNext = lo →
    i.lim - i.off < fuel →
    ∃ its : List Iter, pjForEach pj i acc fuel = .ok (acc ++ its.toArray) ∧ Forall2 (RootIter pj) vs its := by
  intro fuel
  induction fuel with
  | zero => intro _ _ _ _ _ _ _ _ h; omega
  | succ n ih =>
    intro vs i acc lo hroots hlim ha hlo hf
    rw [pjForEach]
    cases vs with
    | nil =>
      simp only [OkRoots] at hroots
      obtain ⟨c, _, hae⟩ := advanceIter_end pj i default lo (by rw [hlim]; exact hroots) ha hlo
      rw [hae]
      simp only [Res.bind_ok, show (typeNone != typeRoot) = true from by decide, if_true]
      exact ⟨[], by simp, Forall2.nil⟩
    | cons v vs =>
      simp only [OkRoots] at hroots
      obtain ⟨q, e, g, ⟨hqe, hr, ⟨c, hc, _⟩, g1, hok, g2⟩, rest⟩ := hroots
      have hce := word_lt hc
      have hpf := pos_lt_fin v pj hok
      have hg := g.1
      have hg1 := g1.1
      have hg2 := g2.1
      obtain ⟨w, hw, ht, he⟩ := advanceIter_root pj i default lo q e g hr hqe (by omega) ha hlo
      rw [he]
      simp only [Res.bind_ok, show (typeRoot != typeRoot) = false from by decide, Bool.false_eq_true, if_false]
      obtain ⟨x, hx, hxt, hin⟩ := advanceInto_node pj { lim := e, off := q + 1, addNext := 0, cur := payloadOf w, t := tagRoot }
        (q + 1) v g1 hok (by show v.fin ≤ e; omega) (Int.le_refl _) (by show ((q + 1 : Nat) : Int) + 0 = _; omega)
      rw [hin]
      simp only [Res.bind_ok]
      obtain ⟨its, hits, hall⟩ := ih vs { lim := i.lim, off := q + 1, addNext := (e : Int) - ((q + 1 : Nat) : Int), cur := payloadOf w, t := tagRoot }
        (acc.push { lim := e, off := v.pos + 1, addNext := intoNext v, cur := payloadOf x, t := tagOf x }) e rest hlim
        (by simp only; omega) (by simp only; omega) (by simp only; omega)
      rw [hits]
      refine ⟨{ lim := e, off := v.pos + 1, addNext := intoNext v, cur := payloadOf x, t := tagOf x } :: its, ?_, ?_⟩
      · rw [Array.push_eq_append, Array.append_assoc]
        simp
      · have hi := intoNext_le pj v hok
        exact Forall2.cons ⟨hok, ⟨rfl, ⟨x, hx, rfl, rfl⟩, by show v.fin ≤ e; omega, by simp only; omega⟩, by show e ≤ _; omega⟩ hall

theorem mapM_loop_ok {α β γ : Type} (f : α → Res β) (g : γ → β) : ∀ (vs : List γ) (l : List α) (bs : List β),
    Forall2 (fun v a => f a = .ok (g v)) vs l → List.mapM.loop f l bs = .ok (bs.reverse ++ vs.map g) := by
  intro vs l bs h
  induction h generalizing bs with
  | nil => simp [List.mapM.loop]
  | cons hab _ ih =>
    rw [List.mapM.loop, hab]
    simp only [Res.bind_ok]
    rw [ih]
    simp

/-- 4. COROLLARY (C02 / C14). For every located document the tape holds — root entries `vs`, gaps (deleted
    elements, nulled containers) allowed everywhere except between a key and its value — the ordered walk
    through `ParsedJson.ForEach`, `Object.NextElementBytes`, `Array.Iter`/`Advance` and the typed accessors
    returns exactly the document: members in source order with duplicates, elements in order, nothing
    skipped or repeated after a gap. -/
theorem owalk_exact (pj : PJ) (vs : List LVal) (h : OkRoots pj vs 0) (ht : ∀ v ∈ vs, Tight v) :
    owalk pj = .ok (vs.map toOVal) := by
  unfold owalk
  obtain ⟨its, hits, hall⟩ := pjForEach_roots pj (fuelOf pj) vs (Iter.ofPJ pj) #[] 0 h rfl (Int.le_refl _) rfl
    (by unfold fuelOf Iter.ofPJ; simp only; omega)
  rw [hits]
  simp only [Res.bind_ok, Array.empty_append]
  have : Forall2 (fun v a => owalkValue pj a (fuelOf pj) = .ok (toOVal v)) vs its := by
    clear hits h
    induction hall with
    | nil => exact Forall2.nil
    | cons hab _ ih =>
      exact Forall2.cons (owalkValue_node_fuelOf pj _ _ hab.1 (ht _ (List.mem_cons_self ..)) hab.2.1 hab.2.2)
        (ih fun v hv => ht v (List.mem_cons_of_mem _ hv))
  have := mapM_loop_ok (fun it => owalkValue pj it (fuelOf pj)) toOVal vs its [] this
  simpa [List.mapM] using this

/-! ### The result only depends on the abstract document -/

mutual
/-- the observation of an abstract (position-free) document -/
def ofJVal : JVal → OVal
  | .null => .null
  | .bool b => .bool b
  | .int w => .int (toInt64 w)
  | .uint w => .uint w.toNat
  | .float b f => .float b f
  | .str s => .str s.toArray
  | .arr es => .arr (ofJVals es)
  | .obj ms => .obj (ofJMems ms)
def ofJVals : JVals → List OVal
  | .nil => []
  | .cons v vs => ofJVal v :: ofJVals vs
def ofJMems : JMems → List (Bytes × OVal)
  | .nil => []
  | .cons k v ms => (k.toArray, ofJVal v) :: ofJMems ms
end

mutual
theorem toOVal_erase : ∀ v : LVal, toOVal v = ofJVal (erase v)
  | .null _ => rfl
  | .bool _ _ => rfl
  | .int _ _ => rfl
  | .uint _ _ => rfl
  | .float _ _ _ => rfl
  | .str _ _ => rfl
  | .arr _ _ es => by simp only [toOVal, erase, ofJVal, toOVals_erase es]
  | .obj _ _ ms => by simp only [toOVal, erase, ofJVal, toOMems_erase ms]
theorem toOVals_erase : ∀ vs : LVals, toOVals vs = ofJVals (eraseVals vs)
  | .nil => rfl
  | .cons v vs => by simp only [toOVals, eraseVals, ofJVals, toOVal_erase v, toOVals_erase vs]
theorem toOMems_erase : ∀ ms : LMems, toOMems ms = ofJMems (eraseMems ms)
  | .nil => rfl
  | .cons _ k v ms => by simp only [toOMems, eraseMems, ofJMems, toOVal_erase v, toOMems_erase ms]
end

/-- 4, in terms of the Layout relation: the tape denotes the document `d = vs.map erase` (`WF pj d`), and the
    ordered walk returns the observation of `d`. -/
theorem owalk_exact_doc (pj : PJ) (vs : List LVal) (h : OkRoots pj vs 0) (ht : ∀ v ∈ vs, Tight v) :
    WF pj (vs.map erase) ∧ owalk pj = .ok ((vs.map erase).map ofJVal) := by
  refine ⟨okRoots_rootsAt vs 0 h, ?_⟩
  rw [owalk_exact pj vs h ht, List.map_map]
  congr 1
  exact List.map_congr_left fun v _ => toOVal_erase v

end SJ.WalkLayout
