import SJ.Model.Reuse
import SJ.Proofs.Facts
import SJ.Proofs.PipelineLive
/-
C15: what a call finds in a reused object cannot influence it.
-/
namespace SJ.Reuse
open SJ SJ.Generated

/-- assigned by one of the three entry points -/
def assignedAny (field : String) : Bool :=
  ["internalParsedJson.initialize", "internalParsedJson.parseMessage", "newInternalParsedJson"].any (fun fn => assigned fn field)

/-- every field the entry points are supposed to reset is assigned in the source -/
theorem assigned_all :
    assigned "internalParsedJson.initialize" "Tape" = true ∧ assigned "internalParsedJson.initialize" "Strings.B" = true ∧
    assigned "internalParsedJson.initialize" "Strings" = true ∧ assigned "internalParsedJson.parseMessage" "Message" = true ∧
    assigned "internalParsedJson.initialize" "containingScopeOffset" = true ∧ assigned "internalParsedJson.initialize" "indexesChan" = true ∧
    assigned "internalParsedJson.parseMessage" "buffersOffset" = true ∧ assigned "internalParsedJson.parseMessage" "ndjson" = true ∧
    assigned "newInternalParsedJson" "copyStrings" = true := by decide

/-- **History independence of the entry state.** Whatever earlier calls left in the object (`c`, `c'` arbitrary),
    the two stages start from the same state, up to the channel contents and the write-only `isvalid`. -/
theorem enter_indep (c c' : Carry) (msg : Bytes) (nd copy : Bool) :
    { enter c msg nd copy with queue := [], isvalid := false } = { enter c' msg nd copy with queue := [], isvalid := false } := by
  obtain ⟨h1, h2, h3, h4, h5, h6, h7, h8, h9⟩ := assigned_all
  simp only [enter, h1, h2, h3, h4, h5, h6, h7, h8, h9, and_self, if_true]

/-- … and it is the state of a fresh object: stage 2 starts from `M.init`. -/
theorem initFrom_enter (c : Carry) (msg : Bytes) (nd copy : Bool) : initFrom (enter c msg nd copy) = M.init := by
  obtain ⟨h1, h2, h3, h4, h5, h6, h7, h8, h9⟩ := assigned_all
  simp only [initFrom, enter, h1, h2, h3, h5, and_self, if_true]
  rfl

theorem enter_fields (c : Carry) (msg : Bytes) (nd copy : Bool) :
    (enter c msg nd copy).message = trimSpace msg ∧ (enter c msg nd copy).nd = nd ∧ (enter c msg nd copy).copyStrings = copy ∧
    (enter c msg nd copy).ixIndex = 0 ∧ (enter c msg nd copy).ixLength = 0 ∧ (enter c msg nd copy).bufOffset = 2^64 - 1 := by
  obtain ⟨h1, h2, h3, h4, h5, h6, h7, h8, h9⟩ := assigned_all
  simp only [enter, h4, h6, h7, h8, h9, if_true, and_self]

/-- `isvalid` is the one field no entry point resets — and no function reads it. -/
theorem isvalid_write_only : parserFieldsUsed.contains "isvalid" = false := by decide

/-- The fields of the per-call object, each with its justification: reset on entry, or `isvalid` (write-only),
    `indexChans` (the channel: empty on return, `sync_leaves_empty` / `async_leaves_empty`), `buffers` (the ring: a
    slot is filled before it is handed over — `Pipeline.Safe`), `ParsedJson` (embedded: its `Message`, `Tape`, `Strings`
    are reset, `internal` is cleared). A field added to the struct without a reset breaks this theorem. -/
theorem fields_covered :
    fieldsinternalParsedJson.all (fun f =>
      (["containingScopeOffset", "indexesChan", "buffersOffset", "ndjson", "copyStrings"].contains f && assignedAny f) ||
      ["isvalid", "indexChans", "buffers", "ParsedJson"].contains f) = true ∧
    fieldsParsedJson.all (fun f => assignedAny f || assignedAny ("ParsedJson." ++ f)) = true := by
  decide

-- the channel is empty when `parseMessage` returns -----------------------------------------------------------

theorem drainRange_produced (n k : Nat) : drainRange ((List.range' k n).map Item.buf ++ [.term]) = [] := by
  induction n generalizing k with
  | zero => rfl
  | succ n ih => simp only [List.range'_succ, List.map_cons, List.cons_append, drainRange]; exact ih (k + 1)

theorem drainSelect_suffix : ∀ (l : List Item), (∀ x ∈ l, x ≠ .term) → drainSelect (l ++ [.term]) = []
  | [], _ => rfl
  | .buf k :: r, h => by
    simp only [List.cons_append, drainSelect]
    exact drainSelect_suffix r (fun x hx => h x (List.mem_cons_of_mem _ hx))
  | .term :: r, h => absurd rfl (h .term (List.mem_cons_self))

theorem drainSelect_nil : drainSelect [] = [] := rfl

theorem produced_length (n : Nat) : (produced n).length = n + 1 := by simp [produced]

theorem produced_drop (n t : Nat) (ht : t ≤ n) :
    (produced n).drop t = ((List.range n).drop t).map Item.buf ++ [.term] := by
  unfold produced
  rw [List.drop_append_of_le_length (by simp; exact ht), List.map_drop]

/-- **Synchronous path: the channel is empty on every return path** — stage-1 failure (blocking drain to the
    terminator), success, stage-2 failure after taking any number `taken ≤ n + 1` of the `n + 1` queued items
    (non-blocking drain to the terminator or to an empty channel). -/
theorem sync_leaves_empty (n : Nat) (stage1ok stage2ok : Bool) (taken : Nat) (ht : taken ≤ n + 1) :
    syncLeftover n stage1ok stage2ok taken = [] := by
  unfold syncLeftover
  cases stage1ok
  · simp only [Bool.not_false, if_true, produced, List.range_eq_range']
    exact drainRange_produced n 0
  · simp only [Bool.not_true, Bool.false_eq_true, if_false]
    cases stage2ok
    · simp only [Bool.false_eq_true, if_false]
      by_cases h : taken ≤ n
      · rw [produced_drop n taken h]
        apply drainSelect_suffix
        intro x hx
        simp only [List.mem_map] at hx
        obtain ⟨k, _, rfl⟩ := hx
        exact fun e => by cases e
      · have : taken = n + 1 := by omega
        subst this
        rw [List.drop_of_length_le (by rw [produced_length]; exact Nat.le_refl _)]
        rfl
    · simp only [if_true]
      rw [List.drop_of_length_le (by rw [produced_length]; exact Nat.le_refl _)]

/-- **Concurrent path: the channel is empty once the terminator has been received**, for every schedule (both on
    success and when stage 2 failed and kept consuming until the terminator). -/
theorem async_leaves_empty (c : Pipeline.Cfg) (hc : c.cap + 2 ≤ c.slots) (evs : List Pipeline.Ev) (s : Pipeline.St)
    (hr : Pipeline.run c {} evs = some s) (ht : s.termRecv = true) : Pipeline.queued s = 0 := by
  have hterm := (Pipeline.all_run c hc evs {} s (Pipeline.inv_init c) (by simp [Pipeline.SeenExact]) ⟨by simp⟩ hr).2
  have h := hterm.recvT ht
  unfold Pipeline.queued
  simp [h.1, h.2, ht]

-- the source of the entry points (regenerated, one statement per entry) -------------------------------------------

/-- `initialize`: truncate the tape, the string buffer (or make a new one), the scope stack; forget the index buffer
    of the previous call. -/
theorem source_initialize : srcInitialize = ["avgTapeSize := size * 15 / 100", "if cap(pj.Tape) < avgTapeSize { pj.Tape = make([]uint64, 0, avgTapeSize) }", "pj.Tape = pj.Tape[:0]", "stringsSize := size / 10", "if stringsSize < 128 { stringsSize = 128 }", "if pj.Strings != nil && cap(pj.Strings.B) >= stringsSize { pj.Strings.B = pj.Strings.B[:0] } else { pj.Strings = &TStrings{make([]byte, 0, stringsSize)} }", "if cap(pj.containingScopeOffset) < maxdepth { pj.containingScopeOffset = make([]uint64, 0, maxdepth) }", "pj.containingScopeOffset = pj.containingScopeOffset[:0]", "pj.indexesChan = indexChan{}"] := rfl

/-- `parseMessage`: trim, initialise, set the ND flag, make the channel once, reset the slot counter; concurrent path
    above 8 KiB (stage 2 keeps consuming to the terminator when it fails), synchronous path otherwise (blocking drain
    after a stage-1 failure; non-blocking drain to the terminator or an empty channel after a stage-2 failure). The
    drain models `drainRange` / `drainSelect` of `SJ/Model/Reuse.lean` are read off this text. -/
theorem source_parseMessage : srcParseMessage = ["pj.Message = bytes.TrimSpace(msg)", "pj.initialize(len(pj.Message))", "if ndjson { pj.ndjson = 1 } else { pj.ndjson = 0 }", "if pj.indexChans == nil { pj.indexChans = make(chan indexChan, indexSlots-2) }", "pj.buffersOffset = ^uint64(0)", "var errStage1 error", "if len(pj.Message) > 8<<10 { var wg sync.WaitGroup wg.Add(1) go func() { defer wg.Done() if ok, done := pj.unifiedMachine(); !ok { err = errors.New(\"Bad parsing while executing stage 2\") if !done { for idx := range pj.indexChans { if idx.index == -1 { break } } } } }() if !pj.findStructuralIndices() { errStage1 = errors.New(\"Failed to find all structural indices for stage 1\") } wg.Wait() } else { if !pj.findStructuralIndices() { for idx := range pj.indexChans { if idx.index == -1 { break } } return errors.New(\"Failed to find all structural indices for stage 1\") } if ok, _ := pj.unifiedMachine(); !ok { for { select { case idx := <-pj.indexChans: if idx.index == -1 { return errors.New(\"Bad parsing while executing stage 2\") } default: return errors.New(\"Bad parsing while executing stage 2\") } } } return nil }", "if errStage1 != nil { return errStage1 }", "return"] := rfl

/-- `newInternalParsedJson`: adopt the internal state of the reuse argument, and reset `copyStrings` before the
    options are applied. -/
theorem source_newInternal : srcNewInternal = ["if !SupportedCPU() { return nil, errors.New(\"Host CPU does not meet target specs\") }", "var pj *internalParsedJson", "if reuse != nil && reuse.internal != nil { pj = reuse.internal pj.ParsedJson = *reuse pj.ParsedJson.internal = nil reuse = &ParsedJson{} }", "if pj == nil { pj = &internalParsedJson{} }", "pj.copyStrings = true", "for _, opt := range opts { if err := opt(pj); err != nil { return nil, err } }", "return pj, nil"] := rfl

end SJ.Reuse
