import SJ.Proofs.GoRebuildLemmas
set_option linter.unusedVariables false
set_option linter.unusedSimpArgs false
namespace SJ.GoRebuild
open SJ SJ.GoSem SJ.Generated SJ.Rebuild

/-- a store represents a state of the hand model: `off`, `nSkips`, the unread suffix of `values`, `len(dst.Tape)` -/
def Rep (values : Bytes) (e : Env) (s : RebState) : Prop :=
  e.get "off" = some (.int s.off) ∧ e.get "nSkips" = some (.int s.nSkips) ∧
  e.get "values" = some (.bytes (values.extract s.vpos values.size)) ∧
  e.get "dst.lim" = some (.int s.tape.size)

/-- outcome of a piece of the loop body against a result of the model -/
def StepSim (values : Bytes) (P : Env → Prop) (o : Out) (r : Res RebState) : Prop :=
  match r with
  | .ok s' => ∃ e', o = .normal ⟨e', s'.tape⟩ ∧ Rep values e' s' ∧ P e'
  | .error _ => ∃ st p, o = .ret st [.bool p, .bool true]
  | .panic => o = .panic
  | .diverge => False

attribute [local simp] exec exec1 execCases evalE evalEs isOneOf binop convert ofE Env.get_set tblLookup

/-- the locals `tag`, `tagDst` set at the top of the loop body -/
def TagVars (t : UInt8) (e : Env) : Prop :=
  e.get "tag" = some (.u8 t) ∧ e.get "tagDst" = some (.u64 (t.toUInt64 <<< 56))

/-- head of the loop body (`off == len`, `tag`, `tagDst`, the owed skips) = guard + `flushPhase` -/
theorem head_sim (values : Bytes) (e : Env) (s : RebState) (t : UInt8) (fuel : Nat)
    (hR : Rep values e s) (ht : e.get "t" = some (.u8 t)) (hf : s.tape.size + 2 ≤ fuel) :
    StepSim values (TagVars t) (exec goFuns fuel headStmts ⟨e, s.tape⟩)
      (if s.off == s.tape.size then .error .generic else flushPhase s t) := by
  obtain ⟨h1, h2, h3, h4⟩ := hR
  by_cases heq : s.off = s.tape.size
  · simp only [heq, beq_self_eq_true, if_true, StepSim]
    exact ⟨⟨e, s.tape⟩, true, by simp [headStmts, errRet, h1, h4, heq]⟩
  · have hb : (s.off == s.tape.size) = false := by simp [heq]
    simp only [hb, Bool.false_eq_true, if_false]
    have hlt : s.off < s.tape.size ∨ s.off > s.tape.size := by omega
    have hne : ((s.off : Int) == (s.tape.size : Int)) = false := by
      have : ¬ ((s.off : Int) = s.tape.size) := by omega
      simp [this]
    -- the three statements before the flush
    have hsplit : headStmts = headStmts.take 3 ++ headStmts.drop 3 := rfl
    have hpre : exec goFuns fuel (headStmts.take 3) ⟨e, s.tape⟩ =
        .normal ⟨(e.set "tag" (.u8 t)).set "tagDst" (.u64 (t.toUInt64 <<< 56)), s.tape⟩ := by
      simp [headStmts, errRet, h1, h4, hne, ht]
    rw [hsplit, exec_append, hpre]
    simp only []
    generalize he2 : (e.set "tag" (.u8 t)).set "tagDst" (.u64 (t.toUInt64 <<< 56)) = e2
    have g1 : e2.get "off" = some (.int s.off) := by simp [← he2, h1]
    have g2 : e2.get "nSkips" = some (.int s.nSkips) := by simp [← he2, h2]
    have g3 : e2.get "values" = some (.bytes (values.extract s.vpos values.size)) := by simp [← he2, h3]
    have g4 : e2.get "dst.lim" = some (.int s.tape.size) := by simp [← he2, h4]
    have g5 : e2.get "tag" = some (.u8 t) := by simp [← he2]
    have g6 : e2.get "tagDst" = some (.u64 (t.toUInt64 <<< 56)) := by simp [← he2]
    unfold flushPhase
    rw [inCase_nop]
    by_cases hc : s.nSkips > 0 ∧ ¬ t = 78
    · have hc' : (s.nSkips > 0 ∧ (!decide (t = 78)) = true) := by simpa using hc
      rw [if_pos hc']
      have hpos : 0 < s.nSkips := hc.1
      have hbne : (t != 78) = true := by simp [hc.2]
      have hcond : evalE ⟨e2, s.tape⟩ (.land (.bin .gt (.v "nSkips") (.int 0)) (.bin .ne (.v "tag") (.u8 78))) =
          .val (.bool true) := by
        simp [g2, g5, hpos, hbne]
      by_cases hge : s.nSkips ≥ s.tape.size - s.off
      · rw [if_pos hge]
        have hge' : (s.tape.size : Int) - s.off ≤ s.nSkips := by omega
        exact ⟨⟨e2, s.tape⟩, true, by simp [headStmts, errRet, g1, g2, g4, g5, hpos, hbne, hge']⟩
      · rw [if_neg hge]
        have hge' : ¬ ((s.tape.size : Int) - s.off ≤ s.nSkips) := by omega
        obtain ⟨e', tp, hfl, hsz, hex, k1, k2, k3⟩ := flush_seq ⟨e2, s.tape⟩ s.off s.nSkips fuel (by omega)
          (by show s.off + s.nSkips ≤ s.tape.size; omega) g1 g2 g4
        have hinner : exec1 goFuns fuel (.ite (.bin .ge (.v "nSkips") (.bin .sub (.lenTape "dst") (.v "off"))) errRet [])
            ⟨e2, s.tape⟩ = .normal ⟨e2, s.tape⟩ := by
          simp [g1, g2, g4, hge']
        have hgo : exec goFuns fuel (headStmts.drop 3) ⟨e2, s.tape⟩ = .normal ⟨e', tp⟩ := by
          simp only [headStmts, List.drop]
          rw [exec, exec1, hcond]
          simp only []
          rw [exec, hinner]
          simp only []
          rw [hex]
          simp only [exec]
        rw [hgo, hfl]
        simp only [Res.bind_ok, StepSim]
        refine ⟨e', rfl, ⟨k1, k2, ?_, ?_⟩, ?_, ?_⟩
        · rw [k3 _ (by decide) (by decide) (by decide)]; exact g3
        · rw [k3 _ (by decide) (by decide) (by decide), g4, hsz]
        · rw [k3 _ (by decide) (by decide) (by decide)]; exact g5
        · rw [k3 _ (by decide) (by decide) (by decide)]; exact g6
    · have hc' : ¬ (s.nSkips > 0 ∧ (!decide (t = 78)) = true) := by simpa using hc
      rw [if_neg hc']
      refine ⟨e2, ?_, ⟨g1, g2, g3, g4⟩, g5, g6⟩
      by_cases hpos : 0 < s.nSkips
      · have : t = 78 := by
          simp [hpos] at hc; exact hc
        simp [headStmts, g2, g5, hpos, this]
      · simp [headStmts, g2, g5, hpos]

theorem guardSw_eq : guardSw = .switch (.v "tag") [
    ([(.u8 34), (.u8 100), (.u8 108), (.u8 117), (.u8 101)], [
      .ite (.bin .ge (.bin .add (.v "off") (.int 1)) (.lenTape "dst")) errRet []])] [] := rfl


/-- the two-entry guard -/
theorem guard_exec (e : Env) (tape : Array UInt64) (off lim : Nat) (t : UInt8) (fuel : Nat)
    (h1 : e.get "off" = some (.int off)) (h4 : e.get "dst.lim" = some (.int lim)) (h5 : e.get "tag" = some (.u8 t)) :
    exec1 goFuns fuel guardSw ⟨e, tape⟩ =
      if (t = 34 ∨ t = 100 ∨ t = 108 ∨ t = 117 ∨ t = 101) ∧ off + 1 ≥ lim then .ret ⟨e, tape⟩ [.bool true, .bool true]
      else .normal ⟨e, tape⟩ := by
  rw [guardSw_eq]
  by_cases ht : (t = 34 ∨ t = 100 ∨ t = 108 ∨ t = 117 ∨ t = 101)
  · have ht' : (34 = t ∨ 100 = t ∨ 108 = t ∨ 117 = t ∨ 101 = t) := by
      rcases ht with h | h | h | h | h <;> simp [h]
    by_cases hg : off + 1 ≥ lim
    · have hg' : (lim : Int) ≤ off + 1 := by omega
      simp [h1, h4, h5, ht, ht', hg, hg', errRet]
    · have hg' : ¬ (lim : Int) ≤ off + 1 := by omega
      simp [h1, h4, h5, ht, ht', hg, hg', errRet]
  · have ht' : ¬ (34 = t ∨ 100 = t ∨ 108 = t ∨ 117 = t ∨ 101 = t) := by
      intro h; apply ht
      rcases h with h | h | h | h | h <;> simp [← h]
    simp [h1, h4, h5, ht, ht', errRet]

theorem u8lit (c t : UInt8) : (Val.u8 c == Val.u8 t) = decide (t = c) := by
  by_cases h : t = c
  · simp [h]
  · have : ¬ c = t := fun hh => h hh.symm
    simp [h, this]

/-- clauses and default of the reconstruction switch -/
def mainCases : List (List Expr × List Stmt) := match mainSw with | .switch _ cs _ => cs | _ => []
def mainDflt : List Stmt := match mainSw with | .switch _ _ d => d | _ => []
def caseBody (k : Nat) : List Stmt := (mainCases.getD k ([], [])).2

theorem mainSw_eq : mainSw = .switch (.v "tag") mainCases mainDflt := rfl

/-- which clause the switch runs -/
def clauseOf (t : UInt8) : Option Nat :=
  if t = 78 then some 0 else if t = 34 then some 1 else if t = 100 ∨ t = 108 ∨ t = 117 then some 2
  else if t = 101 then some 3 else if t = 110 ∨ t = 116 ∨ t = 102 ∨ t = 0 then some 4
  else if t = 123 ∨ t = 91 then some 5 else if t = 114 then some 6 else if t = 125 ∨ t = 93 then some 7 else none

theorem mainSw_select (e : Env) (tape : Array UInt64) (t : UInt8) (fuel : Nat) (h5 : e.get "tag" = some (.u8 t)) :
    exec1 goFuns fuel mainSw ⟨e, tape⟩ =
      match clauseOf t with
      | some k => exec goFuns fuel (caseBody k) ⟨e, tape⟩
      | none => .ret ⟨e, tape⟩ [.bool false, .bool true] := by
  rw [mainSw_eq, exec1]
  simp only [evalE, h5]
  simp only [caseBody, mainCases, mainDflt, mainSw, loopBody, goDeserialize_rebuild, List.getD_cons_zero,
    List.getD_cons_succ, List.getD_eq_getElem?_getD, List.getElem?_cons_zero, List.getElem?_cons_succ, Option.getD_some]
  simp only [execCases, evalEs, evalE, isOneOf, u8lit, Bool.or_false, Bool.or_eq_true, decide_eq_true_eq,
    UInt8.reduceOfNat, clauseOf]
  by_cases h0 : t = 78
  · simp only [h0, if_true]; rfl
  by_cases h1 : t = 34
  · simp only [h0, h1, if_true, if_false]; rfl
  by_cases h2 : t = 100 ∨ t = 108 ∨ t = 117
  · simp only [h0, h1, h2, if_true, if_false]; rfl
  by_cases h3 : t = 101
  · simp only [h0, h1, h2, h3, if_true, if_false]; rfl
  by_cases h4 : t = 110 ∨ t = 116 ∨ t = 102 ∨ t = 0
  · simp only [h0, h1, h2, h3, h4, if_true, if_false]; rfl
  by_cases h5 : t = 123 ∨ t = 91
  · simp only [h0, h1, h2, h3, h4, h5, if_true, if_false]; rfl
  by_cases h6 : t = 114
  · simp only [h0, h1, h2, h3, h4, h5, h6, if_true, if_false]; rfl
  by_cases h7 : t = 125 ∨ t = 93
  · simp only [h0, h1, h2, h3, h4, h5, h6, h7, if_true, if_false]; rfl
  simp only [h0, h1, h2, h3, h4, h5, h6, h7, if_true, if_false]
  simp

theorem exec_single (funs : String → Option FunDef) (fuel : Nat) (st : Stmt) (s : St) :
    exec funs fuel [st] s = exec1 funs fuel st s := by
  rw [exec]
  cases exec1 funs fuel st s <;> simp

/-- `case TagString` -/
theorem clause1_sim (values : Bytes) (e : Env) (s : RebState) (t : UInt8) (fuel : Nat)
    (hR : Rep values e s) (hT : TagVars t e) (hlt : s.off + 1 < s.tape.size) :
    StepSim values (fun _ => True) (exec goFuns fuel (caseBody 1) ⟨e, s.tape⟩)
      (if values.size - s.vpos < 16 then .error .generic else do
        let tp ← wr s.tape s.off ((t.toUInt64 <<< 56) ||| rdLE64 values s.vpos)
        let tp ← wr tp (s.off + 1) (rdLE64 values (s.vpos + 8))
        .ok { s with tape := tp, off := s.off + 2, vpos := s.vpos + 16 }) := by
  obtain ⟨h1, h2, h3, h4⟩ := hR
  obtain ⟨h5, h6⟩ := hT
  have hbody : caseBody 1 = [
      .ite (.bin .lt (.lenB (.v "values")) (.int 16)) errRet [],
      .assign "sOffset" (.le64 (.sliceB (.v "values") (.int 0) (.int 8))),
      .assign "sLen" (.le64 (.sliceB (.v "values") (.int 8) (.int 16))),
      .assign "values" (.sliceB (.v "values") (.int 16) (.lenB (.v "values"))),
      .tapeSet "dst" (.v "off") (.bin .or (.v "tagDst") (.v "sOffset")),
      .tapeSet "dst" (.bin .add (.v "off") (.int 1)) (.v "sLen"),
      .assign "off" (.bin .add (.v "off") (.int 2))] := rfl
  rw [hbody]
  by_cases hl : values.size - s.vpos < 16
  · rw [if_pos hl]
    have hl' : ((values.size - s.vpos : Nat) : Int) < 16 := by omega
    refine ⟨⟨e, s.tape⟩, true, ?_⟩
    simp [h3, errRet, hl, hl']
  · rw [if_neg hl]
    have hw1 : s.off < s.tape.size := by omega
    simp only [wr, hw1, dite_true, Res.bind_ok, Array.size_set, hlt, StepSim, Rep]
    have hvs : (values.extract s.vpos values.size).size = values.size - s.vpos := size_suffix _ _
    have hlo := leU64_suffix_lo values s.vpos (by omega)
    have hhi := leU64_suffix_hi values s.vpos (by omega)
    have hrest := suffix_suffix values s.vpos 16 (by omega)
    rw [← hvs] at hrest
    rw [← hlo, ← hhi, ← hrest]
    generalize values.extract s.vpos values.size = v at *
    have a1 : (8 : Int) ≤ v.size := by omega
    have a2 : (16 : Int) ≤ v.size := by omega
    have a3 : min 8 v.size = 8 := by omega
    have a4 : min 16 v.size = 16 := by omega
    have a5 : ¬ ((v.size : Int) < 16) := by omega
    have a6 : (s.off : Int) + 1 < s.tape.size := by omega
    have a7 : (s.off : Int) < s.tape.size := by omega
    have a8 : (0 : Int) ≤ s.off + 1 := by omega
    simp [h1, h2, h3, h4, h5, h6, errRet, a1, a2, a3, a4, a5, a6, a7, a8, hw1, hlt, Rep]

/-- `case TagNop` -/
theorem clause0_sim (values : Bytes) (e : Env) (s : RebState) (t : UInt8) (fuel : Nat)
    (hR : Rep values e s) :
    StepSim values (fun _ => True) (exec goFuns fuel (caseBody 0) ⟨e, s.tape⟩)
      (.ok { s with nSkips := s.nSkips + 1 }) := by
  obtain ⟨h1, h2, h3, h4⟩ := hR
  have hbody : caseBody 0 = [.assign "nSkips" (.bin .add (.v "nSkips") (.int 1))] := rfl
  rw [hbody]
  simp [h1, h2, h3, h4, StepSim, Rep]

/-- `case TagFloat, TagInteger, TagUint` -/
theorem clause2_sim (values : Bytes) (e : Env) (s : RebState) (t : UInt8) (fuel : Nat)
    (hR : Rep values e s) (hT : TagVars t e) (hlt : s.off + 1 < s.tape.size) :
    StepSim values (fun _ => True) (exec goFuns fuel (caseBody 2) ⟨e, s.tape⟩)
      (if values.size - s.vpos < 8 then .error .generic else do
        let tp ← wr s.tape s.off (t.toUInt64 <<< 56)
        let tp ← wr tp (s.off + 1) (rdLE64 values s.vpos)
        .ok { s with tape := tp, off := s.off + 2, vpos := s.vpos + 8 }) := by
  obtain ⟨h1, h2, h3, h4⟩ := hR
  obtain ⟨h5, h6⟩ := hT
  have hbody : caseBody 2 = [
      .ite (.bin .lt (.lenB (.v "values")) (.int 8)) errRet [],
      .tapeSet "dst" (.v "off") (.v "tagDst"),
      .tapeSet "dst" (.bin .add (.v "off") (.int 1)) (.le64 (.sliceB (.v "values") (.int 0) (.int 8))),
      .assign "values" (.sliceB (.v "values") (.int 8) (.lenB (.v "values"))),
      .assign "off" (.bin .add (.v "off") (.int 2))] := rfl
  rw [hbody]
  by_cases hl : values.size - s.vpos < 8
  · rw [if_pos hl]
    have hl' : ((values.size - s.vpos : Nat) : Int) < 8 := by omega
    refine ⟨⟨e, s.tape⟩, true, ?_⟩
    simp [h3, errRet, hl, hl']
  · rw [if_neg hl]
    have hw1 : s.off < s.tape.size := by omega
    simp only [wr, hw1, dite_true, Res.bind_ok, Array.size_set, hlt, StepSim, Rep]
    have hvs : (values.extract s.vpos values.size).size = values.size - s.vpos := size_suffix _ _
    have hlo := leU64_suffix_lo values s.vpos (by omega)
    have hrest := suffix_suffix values s.vpos 8 (by omega)
    rw [← hvs] at hrest
    rw [← hlo, ← hrest]
    generalize values.extract s.vpos values.size = v at *
    have a1 : (8 : Int) ≤ v.size := by omega
    have a3 : min 8 v.size = 8 := by omega
    have a5 : ¬ ((v.size : Int) < 8) := by omega
    have a6 : (s.off : Int) + 1 < s.tape.size := by omega
    have a7 : (s.off : Int) < s.tape.size := by omega
    have a8 : (0 : Int) ≤ s.off + 1 := by omega
    simp [h1, h2, h3, h4, h5, h6, errRet, a1, a3, a5, a6, a7, a8, hw1, hlt, Rep]

/-- `case tagFloatWithFlag` -/
theorem clause3_sim (values : Bytes) (e : Env) (s : RebState) (t : UInt8) (fuel : Nat)
    (hR : Rep values e s) (hlt : s.off + 1 < s.tape.size) :
    StepSim values (fun _ => True) (exec goFuns fuel (caseBody 3) ⟨e, s.tape⟩)
      (if values.size - s.vpos < 16 then .error .generic else do
        let tp ← wr s.tape s.off (rdLE64 values s.vpos)
        let tp ← wr tp (s.off + 1) (rdLE64 values (s.vpos + 8))
        .ok { s with tape := tp, off := s.off + 2, vpos := s.vpos + 16 }) := by
  obtain ⟨h1, h2, h3, h4⟩ := hR
  have hbody : caseBody 3 = [
      .ite (.bin .lt (.lenB (.v "values")) (.int 16)) errRet [],
      .tapeSet "dst" (.v "off") (.le64 (.sliceB (.v "values") (.int 0) (.int 8))),
      .tapeSet "dst" (.bin .add (.v "off") (.int 1)) (.le64 (.sliceB (.v "values") (.int 8) (.int 16))),
      .assign "values" (.sliceB (.v "values") (.int 16) (.lenB (.v "values"))),
      .assign "off" (.bin .add (.v "off") (.int 2))] := rfl
  rw [hbody]
  by_cases hl : values.size - s.vpos < 16
  · rw [if_pos hl]
    have hl' : ((values.size - s.vpos : Nat) : Int) < 16 := by omega
    refine ⟨⟨e, s.tape⟩, true, ?_⟩
    simp [h3, errRet, hl, hl']
  · rw [if_neg hl]
    have hw1 : s.off < s.tape.size := by omega
    simp only [wr, hw1, dite_true, Res.bind_ok, Array.size_set, hlt, StepSim, Rep]
    have hvs : (values.extract s.vpos values.size).size = values.size - s.vpos := size_suffix _ _
    have hlo := leU64_suffix_lo values s.vpos (by omega)
    have hhi := leU64_suffix_hi values s.vpos (by omega)
    have hrest := suffix_suffix values s.vpos 16 (by omega)
    rw [← hvs] at hrest
    rw [← hlo, ← hhi, ← hrest]
    generalize values.extract s.vpos values.size = v at *
    have a1 : (8 : Int) ≤ v.size := by omega
    have a2 : (16 : Int) ≤ v.size := by omega
    have a3 : min 8 v.size = 8 := by omega
    have a4 : min 16 v.size = 16 := by omega
    have a5 : ¬ ((v.size : Int) < 16) := by omega
    have a6 : (s.off : Int) + 1 < s.tape.size := by omega
    have a7 : (s.off : Int) < s.tape.size := by omega
    have a8 : (0 : Int) ≤ s.off + 1 := by omega
    simp [h1, h2, h3, h4, errRet, a1, a2, a3, a4, a5, a6, a7, a8, hw1, hlt, Rep]

/-- `case TagNull, TagBoolTrue, TagBoolFalse, TagEnd` -/
theorem clause4_sim (values : Bytes) (e : Env) (s : RebState) (t : UInt8) (fuel : Nat)
    (hR : Rep values e s) (hT : TagVars t e) (hlt : s.off < s.tape.size) :
    StepSim values (fun _ => True) (exec goFuns fuel (caseBody 4) ⟨e, s.tape⟩)
      (do
        let tp ← wr s.tape s.off (t.toUInt64 <<< 56)
        .ok { s with tape := tp, off := s.off + 1 }) := by
  obtain ⟨h1, h2, h3, h4⟩ := hR
  obtain ⟨h5, h6⟩ := hT
  have hbody : caseBody 4 = [
      .tapeSet "dst" (.v "off") (.v "tagDst"),
      .assign "off" (.bin .add (.v "off") (.int 1))] := rfl
  rw [hbody]
  have a7 : (s.off : Int) < s.tape.size := by omega
  simp only [wr, hlt, dite_true, Res.bind_ok, Array.size_set, StepSim, Rep]
  simp [h1, h2, h3, h4, h5, h6, a7, hlt]

/-- `case TagObjectEnd, TagArrayEnd` -/
theorem clause7_sim (values : Bytes) (e : Env) (s : RebState) (t : UInt8) (fuel : Nat)
    (hR : Rep values e s) (hT : TagVars t e) (hlt : s.off < s.tape.size) :
    StepSim values (fun _ => True) (exec goFuns fuel (caseBody 7) ⟨e, s.tape⟩)
      (do
        let cur ← rd s.tape s.off
        if cur &&& wJSONTAGMASK != t.toUInt64 <<< 56 then .error .generic
        else .ok { s with off := s.off + 1 }) := by
  obtain ⟨h1, h2, h3, h4⟩ := hR
  obtain ⟨h5, h6⟩ := hT
  have hbody : caseBody 7 = [
      .ite (.bin .ne (.bin .and (.tapeAt "dst" (.v "off")) (.u64 18374686479671623680)) (.v "tagDst")) errRet [],
      .assign "off" (.bin .add (.v "off") (.int 1))] := rfl
  rw [hbody]
  have a7 : (s.off : Int) < s.tape.size := by omega
  have hr : s.tape[s.off]? = some s.tape[s.off] := by simp [hlt]
  simp only [rd, hr, Res.bind_ok]
  by_cases hm : (s.tape[s.off] &&& wJSONTAGMASK != t.toUInt64 <<< 56) = true
  · rw [if_pos hm]
    refine ⟨⟨e, s.tape⟩, true, ?_⟩
    simp only [wJSONTAGMASK] at hm
    simp [h1, h4, h6, a7, hlt, hr, hm, errRet]
  · rw [if_neg hm]
    simp only [wJSONTAGMASK, Bool.not_eq_true] at hm
    simp [h1, h2, h3, h4, h6, a7, hlt, hr, hm, errRet, StepSim, Rep]

theorem u64_ofNat_lt (n : Nat) (x : UInt64) (hn : n < 2^64) : UInt64.ofNat n < x ↔ n < x.toNat := by
  rw [UInt64.lt_iff_toNat_lt, UInt64.toNat_ofNat']
  have : n % 2^64 = n := Nat.mod_eq_of_lt hn
  rw [this]

/-- `case TagRoot` -/
theorem clause6_sim (values : Bytes) (e : Env) (s : RebState) (t : UInt8) (fuel : Nat)
    (hR : Rep values e s) (hT : TagVars t e) (hlt : s.off < s.tape.size) (hsz : s.tape.size < 2^64) :
    StepSim values (fun _ => True) (exec goFuns fuel (caseBody 6) ⟨e, s.tape⟩)
      (if values.size - s.vpos < 8 then .error .generic else
        if (rdLE64 values s.vpos + UInt64.ofNat s.off).toNat > s.tape.size then .error .generic else do
        let tp ← wr s.tape s.off ((t.toUInt64 <<< 56) ||| (rdLE64 values s.vpos + UInt64.ofNat s.off))
        .ok { s with tape := tp, off := s.off + 1, vpos := s.vpos + 8 }) := by
  obtain ⟨h1, h2, h3, h4⟩ := hR
  obtain ⟨h5, h6⟩ := hT
  have hbody : caseBody 6 = [
      .ite (.bin .lt (.lenB (.v "values")) (.int 8)) errRet [],
      .assign "val" (.le64 (.sliceB (.v "values") (.int 0) (.int 8))),
      .assign "values" (.sliceB (.v "values") (.int 8) (.lenB (.v "values"))),
      .assign "val" (.bin .add (.v "val") (.conv .u64 (.v "off"))),
      .ite (.bin .gt (.v "val") (.conv .u64 (.lenTape "dst"))) errRet [],
      .tapeSet "dst" (.v "off") (.bin .or (.v "tagDst") (.v "val")),
      .assign "off" (.bin .add (.v "off") (.int 1))] := rfl
  rw [hbody]
  by_cases hl : values.size - s.vpos < 8
  · rw [if_pos hl]
    have hl' : ((values.size - s.vpos : Nat) : Int) < 8 := by omega
    refine ⟨⟨e, s.tape⟩, true, ?_⟩
    simp [h3, errRet, hl, hl']
  · rw [if_neg hl]
    have hvs : (values.extract s.vpos values.size).size = values.size - s.vpos := size_suffix _ _
    have hlo := leU64_suffix_lo values s.vpos (by omega)
    have hrest := suffix_suffix values s.vpos 8 (by omega)
    rw [← hvs] at hrest
    simp only [Rep, StepSim]
    rw [← hlo]
    generalize values.extract s.vpos values.size = v at *
    have a1 : (8 : Int) ≤ v.size := by omega
    have a3 : min 8 v.size = 8 := by omega
    have a5 : ¬ ((v.size : Int) < 8) := by omega
    have a7 : (s.off : Int) < s.tape.size := by omega
    generalize hval : leU64 (v.extract 0 8) + UInt64.ofNat s.off = val
    have hcmp := u64_ofNat_lt s.tape.size val hsz
    by_cases hv : val.toNat > s.tape.size
    · rw [if_pos hv]
      have hv' : UInt64.ofNat s.tape.size < val := hcmp.mpr hv
      refine ⟨_, true, ?_⟩
      simp [h1, h2, h3, h4, h5, h6, errRet, a1, a3, a5, a7, hlt, ofInt_nat, hval, hv']
      trace_state
      sorry
    · rw [if_neg hv]
      have hv' : ¬ UInt64.ofNat s.tape.size < val := fun h => hv (hcmp.mp h)
      simp only [wr, hlt, dite_true, Res.bind_ok, Array.size_set, StepSim, Rep]
      simp [h1, h2, h3, h4, h5, h6, errRet, a1, a3, a5, a7, hlt, ofInt_nat, hval, hv']
      trace_state
      sorry

end SJ.GoRebuild
