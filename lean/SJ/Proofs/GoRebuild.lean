import SJ.Proofs.GoRebuildLemmas
set_option linter.unusedVariables false
set_option linter.unusedSimpArgs false
/-
GoRebuild — the hand model `rebuild` (`Model/Serialize.lean`) IS the meaning of the regenerated syntax tree
`Generated.GoSrc.goDeserialize_rebuild` (the tape reconstruction of `Serializer.Deserialize`, `parsed_serialize.go`).

  `rebuild_source_tie`: for every destination tape `init` (shorter than 2^64 - 1 words), every tag stream and every value
  stream, running the translated block in `GoSem` on the store `rebStore init tags values` returns
    `dst, nil` with tape `tp`      exactly when `rebuild init tags values = .ok tp`,
    `dst/nil, err`                 exactly when `rebuild … = .error _`,
    panics                         exactly when `rebuild … = .panic` (never, by `Rebuild.rebuild_no_panic`),
  is never `stuck` and never out of fuel with `len(dst.Tape) + 2` units.

State correspondence (`Rep`): Go `off` ↔ `RebState.off`, `nSkips` ↔ `nSkips`, the re-sliced `values` ↔ the suffix
`values.extract vpos values.size`, `len(dst.Tape)` ↔ `tape.size`, `dst.Tape` ↔ the interpreter's tape.  The other locals
(`t`, `tag`, `tagDst`, `i`, `sOffset`, `sLen`, `val`) are scratch.

Structure: `head_sim` (guard `off == len`, `tag`, `tagDst`, owed skips = `Rebuild.flushPhase`, using `flush_seq` for the
inner `for`), `guard_exec` + `mainSw_select` + `clause0_sim … clause7_sim` (the two switches = `Rebuild.dispatch`),
`step_sim` (= `rebStep`), `loop_sim` (induction over the tags, `execRange` = `rebLoop`), `tail_sim` (final flush, the two
size checks, `return dst, nil`).  Every piece of syntax the lemmas talk about is tied to the generated tree by `rfl`
(`body_split`, `loopBody_eq`, `tail_eq`, `guardSw_eq`, the `hbody` equations), so a change of this part of `Deserialize`
breaks a proof here.
-/
namespace SJ.GoRebuild
open SJ SJ.GoSem SJ.Generated SJ.Rebuild

/-- a store represents a state of the hand model: `off`, `nSkips`, the unread suffix of `values`, `len(dst.Tape)` -/
def Rep (values : Bytes) (e : Env) (s : RebState) : Prop :=
  e.get "off" = some (.int s.off) ∧ e.get "nSkips" = some (.int s.nSkips) ∧
  e.get "values" = some (.bytes (values.extract s.vpos values.size)) ∧
  e.get "dst.lim" = some (.int s.tape.size)

/-- outcome of a piece of the loop body against a result of the model -/
def StepSim (values : Bytes) (P : Env → Prop) (o : Out) (r : Res RebState) : Prop :=
  match r with
  | .ok s' => ∃ e', o = .normal ⟨e', s'.tape⟩ ∧ Rep values e' s' ∧ P e'
  | .error _ => ∃ st p, o = .ret st [.bool p, .bool true]
  | .panic => o = .panic
  | .diverge => False

attribute [local simp] exec exec1 execCases evalE evalEs isOneOf binop convert ofE Env.get_set tblLookup

/-- the locals `tag`, `tagDst` set at the top of the loop body -/
def TagVars (t : UInt8) (e : Env) : Prop :=
  e.get "tag" = some (.u8 t) ∧ e.get "tagDst" = some (.u64 (t.toUInt64 <<< 56))

/-- head of the loop body (`off == len`, `tag`, `tagDst`, the owed skips) = guard + `flushPhase` -/
theorem head_sim (values : Bytes) (e : Env) (s : RebState) (t : UInt8) (fuel : Nat)
    (hR : Rep values e s) (ht : e.get "t" = some (.u8 t)) (hf : s.tape.size + 2 ≤ fuel) :
    StepSim values (TagVars t) (exec goFuns fuel headStmts ⟨e, s.tape⟩)
      (if s.off == s.tape.size then .error .generic else flushPhase s t) := by
  obtain ⟨h1, h2, h3, h4⟩ := hR
  by_cases heq : s.off = s.tape.size
  · simp only [heq, beq_self_eq_true, if_true, StepSim]
    exact ⟨⟨e, s.tape⟩, true, by simp [headStmts, errRet, h1, h4, heq]⟩
  · have hb : (s.off == s.tape.size) = false := by simp [heq]
    simp only [hb, Bool.false_eq_true, if_false]
    have hlt : s.off < s.tape.size ∨ s.off > s.tape.size := by omega
    have hne : ((s.off : Int) == (s.tape.size : Int)) = false := by
      have : ¬ ((s.off : Int) = s.tape.size) := by omega
      simp [this]
    -- the three statements before the flush
    have hsplit : headStmts = headStmts.take 3 ++ headStmts.drop 3 := rfl
    have hpre : exec goFuns fuel (headStmts.take 3) ⟨e, s.tape⟩ =
        .normal ⟨(e.set "tag" (.u8 t)).set "tagDst" (.u64 (t.toUInt64 <<< 56)), s.tape⟩ := by
      simp [headStmts, errRet, h1, h4, hne, ht]
    rw [hsplit, exec_append, hpre]
    simp only []
    generalize he2 : (e.set "tag" (.u8 t)).set "tagDst" (.u64 (t.toUInt64 <<< 56)) = e2
    have g1 : e2.get "off" = some (.int s.off) := by simp [← he2, h1]
    have g2 : e2.get "nSkips" = some (.int s.nSkips) := by simp [← he2, h2]
    have g3 : e2.get "values" = some (.bytes (values.extract s.vpos values.size)) := by simp [← he2, h3]
    have g4 : e2.get "dst.lim" = some (.int s.tape.size) := by simp [← he2, h4]
    have g5 : e2.get "tag" = some (.u8 t) := by simp [← he2]
    have g6 : e2.get "tagDst" = some (.u64 (t.toUInt64 <<< 56)) := by simp [← he2]
    unfold flushPhase
    rw [inCase_nop]
    by_cases hc : s.nSkips > 0 ∧ ¬ t = 78
    · have hc' : (s.nSkips > 0 ∧ (!decide (t = 78)) = true) := by simpa using hc
      rw [if_pos hc']
      have hpos : 0 < s.nSkips := hc.1
      have hbne : (t != 78) = true := by simp [hc.2]
      have hcond : evalE ⟨e2, s.tape⟩ (.land (.bin .gt (.v "nSkips") (.int 0)) (.bin .ne (.v "tag") (.u8 78))) =
          .val (.bool true) := by
        simp [g2, g5, hpos, hbne]
      by_cases hge : s.nSkips ≥ s.tape.size - s.off
      · rw [if_pos hge]
        have hge' : (s.tape.size : Int) - s.off ≤ s.nSkips := by omega
        exact ⟨⟨e2, s.tape⟩, true, by simp [headStmts, errRet, g1, g2, g4, g5, hpos, hbne, hge']⟩
      · rw [if_neg hge]
        have hge' : ¬ ((s.tape.size : Int) - s.off ≤ s.nSkips) := by omega
        obtain ⟨e', tp, hfl, hsz, hex, k1, k2, k3⟩ := flush_seq ⟨e2, s.tape⟩ s.off s.nSkips fuel (by omega)
          (by show s.off + s.nSkips ≤ s.tape.size; omega) g1 g2 g4
        have hinner : exec1 goFuns fuel (.ite (.bin .ge (.v "nSkips") (.bin .sub (.lenTape "dst") (.v "off"))) errRet [])
            ⟨e2, s.tape⟩ = .normal ⟨e2, s.tape⟩ := by
          simp [g1, g2, g4, hge']
        have hgo : exec goFuns fuel (headStmts.drop 3) ⟨e2, s.tape⟩ = .normal ⟨e', tp⟩ := by
          simp only [headStmts, List.drop]
          rw [exec, exec1, hcond]
          simp only []
          rw [exec, hinner]
          simp only []
          rw [hex]
          simp only [exec]
        rw [hgo, hfl]
        simp only [Res.bind_ok, StepSim]
        refine ⟨e', rfl, ⟨k1, k2, ?_, ?_⟩, ?_, ?_⟩
        · rw [k3 _ (by decide) (by decide) (by decide)]; exact g3
        · rw [k3 _ (by decide) (by decide) (by decide), g4, hsz]
        · rw [k3 _ (by decide) (by decide) (by decide)]; exact g5
        · rw [k3 _ (by decide) (by decide) (by decide)]; exact g6
    · have hc' : ¬ (s.nSkips > 0 ∧ (!decide (t = 78)) = true) := by simpa using hc
      rw [if_neg hc']
      refine ⟨e2, ?_, ⟨g1, g2, g3, g4⟩, g5, g6⟩
      by_cases hpos : 0 < s.nSkips
      · have : t = 78 := by
          simp [hpos] at hc; exact hc
        simp [headStmts, g2, g5, hpos, this]
      · simp [headStmts, g2, g5, hpos]

theorem guardSw_eq : guardSw = .switch (.v "tag") [
    ([(.u8 34), (.u8 100), (.u8 108), (.u8 117), (.u8 101)], [
      .ite (.bin .ge (.bin .add (.v "off") (.int 1)) (.lenTape "dst")) errRet []])] [] := rfl


/-- the two-entry guard -/
theorem guard_exec (e : Env) (tape : Array UInt64) (off lim : Nat) (t : UInt8) (fuel : Nat)
    (h1 : e.get "off" = some (.int off)) (h4 : e.get "dst.lim" = some (.int lim)) (h5 : e.get "tag" = some (.u8 t)) :
    exec1 goFuns fuel guardSw ⟨e, tape⟩ =
      if (t = 34 ∨ t = 100 ∨ t = 108 ∨ t = 117 ∨ t = 101) ∧ off + 1 ≥ lim then .ret ⟨e, tape⟩ [.bool true, .bool true]
      else .normal ⟨e, tape⟩ := by
  rw [guardSw_eq]
  by_cases ht : (t = 34 ∨ t = 100 ∨ t = 108 ∨ t = 117 ∨ t = 101)
  · have ht' : (34 = t ∨ 100 = t ∨ 108 = t ∨ 117 = t ∨ 101 = t) := by
      rcases ht with h | h | h | h | h <;> simp [h]
    by_cases hg : off + 1 ≥ lim
    · have hg' : (lim : Int) ≤ off + 1 := by omega
      simp [h1, h4, h5, ht, ht', hg, hg', errRet]
    · have hg' : ¬ (lim : Int) ≤ off + 1 := by omega
      simp [h1, h4, h5, ht, ht', hg, hg', errRet]
  · have ht' : ¬ (34 = t ∨ 100 = t ∨ 108 = t ∨ 117 = t ∨ 101 = t) := by
      intro h; apply ht
      rcases h with h | h | h | h | h <;> simp [← h]
    simp [h1, h4, h5, ht, ht', errRet]

theorem u8lit (c t : UInt8) : (Val.u8 c == Val.u8 t) = decide (t = c) := by
  by_cases h : t = c
  · simp [h]
  · have : ¬ c = t := fun hh => h hh.symm
    simp [h, this]

/-- clauses and default of the reconstruction switch -/
def mainCases : List (List Expr × List Stmt) := match mainSw with | .switch _ cs _ => cs | _ => []
def mainDflt : List Stmt := match mainSw with | .switch _ _ d => d | _ => []
def caseBody (k : Nat) : List Stmt := (mainCases.getD k ([], [])).2

theorem mainSw_eq : mainSw = .switch (.v "tag") mainCases mainDflt := rfl

/-- which clause the switch runs -/
def clauseOf (t : UInt8) : Option Nat :=
  if t = 78 then some 0 else if t = 34 then some 1 else if t = 100 ∨ t = 108 ∨ t = 117 then some 2
  else if t = 101 then some 3 else if t = 110 ∨ t = 116 ∨ t = 102 ∨ t = 0 then some 4
  else if t = 123 ∨ t = 91 then some 5 else if t = 114 then some 6 else if t = 125 ∨ t = 93 then some 7 else none

theorem mainSw_select (e : Env) (tape : Array UInt64) (t : UInt8) (fuel : Nat) (h5 : e.get "tag" = some (.u8 t)) :
    exec1 goFuns fuel mainSw ⟨e, tape⟩ =
      match clauseOf t with
      | some k => exec goFuns fuel (caseBody k) ⟨e, tape⟩
      | none => .ret ⟨e, tape⟩ [.bool false, .bool true] := by
  rw [mainSw_eq, exec1]
  simp only [evalE, h5]
  simp only [caseBody, mainCases, mainDflt, mainSw, loopBody, goDeserialize_rebuild, List.getD_cons_zero,
    List.getD_cons_succ, List.getD_eq_getElem?_getD, List.getElem?_cons_zero, List.getElem?_cons_succ, Option.getD_some]
  simp only [execCases, evalEs, evalE, isOneOf, u8lit, Bool.or_false, Bool.or_eq_true, decide_eq_true_eq,
    UInt8.reduceOfNat, clauseOf]
  by_cases h0 : t = 78
  · simp only [h0, if_true]; rfl
  by_cases h1 : t = 34
  · simp only [h0, h1, if_true, if_false]; rfl
  by_cases h2 : t = 100 ∨ t = 108 ∨ t = 117
  · simp only [h0, h1, h2, if_true, if_false]; rfl
  by_cases h3 : t = 101
  · simp only [h0, h1, h2, h3, if_true, if_false]; rfl
  by_cases h4 : t = 110 ∨ t = 116 ∨ t = 102 ∨ t = 0
  · simp only [h0, h1, h2, h3, h4, if_true, if_false]; rfl
  by_cases h5 : t = 123 ∨ t = 91
  · simp only [h0, h1, h2, h3, h4, h5, if_true, if_false]; rfl
  by_cases h6 : t = 114
  · simp only [h0, h1, h2, h3, h4, h5, h6, if_true, if_false]; rfl
  by_cases h7 : t = 125 ∨ t = 93
  · simp only [h0, h1, h2, h3, h4, h5, h6, h7, if_true, if_false]; rfl
  simp only [h0, h1, h2, h3, h4, h5, h6, h7, if_true, if_false]
  simp

theorem exec_single (funs : String → Option FunDef) (fuel : Nat) (st : Stmt) (s : St) :
    exec funs fuel [st] s = exec1 funs fuel st s := by
  rw [exec]
  cases exec1 funs fuel st s <;> simp

/-- `case TagString` -/
theorem clause1_sim (values : Bytes) (e : Env) (s : RebState) (t : UInt8) (fuel : Nat)
    (hR : Rep values e s) (hT : TagVars t e) (hlt : s.off + 1 < s.tape.size) :
    StepSim values (fun _ => True) (exec goFuns fuel (caseBody 1) ⟨e, s.tape⟩)
      (if values.size - s.vpos < 16 then .error .generic else do
        let tp ← wr s.tape s.off ((t.toUInt64 <<< 56) ||| rdLE64 values s.vpos)
        let tp ← wr tp (s.off + 1) (rdLE64 values (s.vpos + 8))
        .ok { s with tape := tp, off := s.off + 2, vpos := s.vpos + 16 }) := by
  obtain ⟨h1, h2, h3, h4⟩ := hR
  obtain ⟨h5, h6⟩ := hT
  have hbody : caseBody 1 = [
      .ite (.bin .lt (.lenB (.v "values")) (.int 16)) errRet [],
      .assign "sOffset" (.le64 (.sliceB (.v "values") (.int 0) (.int 8))),
      .assign "sLen" (.le64 (.sliceB (.v "values") (.int 8) (.int 16))),
      .assign "values" (.sliceB (.v "values") (.int 16) (.lenB (.v "values"))),
      .tapeSet "dst" (.v "off") (.bin .or (.v "tagDst") (.v "sOffset")),
      .tapeSet "dst" (.bin .add (.v "off") (.int 1)) (.v "sLen"),
      .assign "off" (.bin .add (.v "off") (.int 2))] := rfl
  rw [hbody]
  by_cases hl : values.size - s.vpos < 16
  · rw [if_pos hl]
    have hl' : ((values.size - s.vpos : Nat) : Int) < 16 := by omega
    refine ⟨⟨e, s.tape⟩, true, ?_⟩
    simp [h3, errRet, hl, hl']
  · rw [if_neg hl]
    have hw1 : s.off < s.tape.size := by omega
    simp only [wr, hw1, dite_true, Res.bind_ok, Array.size_set, hlt, StepSim, Rep]
    have hvs : (values.extract s.vpos values.size).size = values.size - s.vpos := size_suffix _ _
    have hlo := leU64_suffix_lo values s.vpos (by omega)
    have hhi := leU64_suffix_hi values s.vpos (by omega)
    have hrest := suffix_suffix values s.vpos 16 (by omega)
    rw [← hvs] at hrest
    rw [← hlo, ← hhi, ← hrest]
    generalize values.extract s.vpos values.size = v at *
    have a1 : (8 : Int) ≤ v.size := by omega
    have a2 : (16 : Int) ≤ v.size := by omega
    have a3 : min 8 v.size = 8 := by omega
    have a4 : min 16 v.size = 16 := by omega
    have a5 : ¬ ((v.size : Int) < 16) := by omega
    have a6 : (s.off : Int) + 1 < s.tape.size := by omega
    have a7 : (s.off : Int) < s.tape.size := by omega
    have a8 : (0 : Int) ≤ s.off + 1 := by omega
    simp [h1, h2, h3, h4, h5, h6, errRet, a1, a2, a3, a4, a5, a6, a7, a8, hw1, hlt, Rep]

/-- `case TagNop` -/
theorem clause0_sim (values : Bytes) (e : Env) (s : RebState) (t : UInt8) (fuel : Nat)
    (hR : Rep values e s) :
    StepSim values (fun _ => True) (exec goFuns fuel (caseBody 0) ⟨e, s.tape⟩)
      (.ok { s with nSkips := s.nSkips + 1 }) := by
  obtain ⟨h1, h2, h3, h4⟩ := hR
  have hbody : caseBody 0 = [.assign "nSkips" (.bin .add (.v "nSkips") (.int 1))] := rfl
  rw [hbody]
  simp [h1, h2, h3, h4, StepSim, Rep]

/-- `case TagFloat, TagInteger, TagUint` -/
theorem clause2_sim (values : Bytes) (e : Env) (s : RebState) (t : UInt8) (fuel : Nat)
    (hR : Rep values e s) (hT : TagVars t e) (hlt : s.off + 1 < s.tape.size) :
    StepSim values (fun _ => True) (exec goFuns fuel (caseBody 2) ⟨e, s.tape⟩)
      (if values.size - s.vpos < 8 then .error .generic else do
        let tp ← wr s.tape s.off (t.toUInt64 <<< 56)
        let tp ← wr tp (s.off + 1) (rdLE64 values s.vpos)
        .ok { s with tape := tp, off := s.off + 2, vpos := s.vpos + 8 }) := by
  obtain ⟨h1, h2, h3, h4⟩ := hR
  obtain ⟨h5, h6⟩ := hT
  have hbody : caseBody 2 = [
      .ite (.bin .lt (.lenB (.v "values")) (.int 8)) errRet [],
      .tapeSet "dst" (.v "off") (.v "tagDst"),
      .tapeSet "dst" (.bin .add (.v "off") (.int 1)) (.le64 (.sliceB (.v "values") (.int 0) (.int 8))),
      .assign "values" (.sliceB (.v "values") (.int 8) (.lenB (.v "values"))),
      .assign "off" (.bin .add (.v "off") (.int 2))] := rfl
  rw [hbody]
  by_cases hl : values.size - s.vpos < 8
  · rw [if_pos hl]
    have hl' : ((values.size - s.vpos : Nat) : Int) < 8 := by omega
    refine ⟨⟨e, s.tape⟩, true, ?_⟩
    simp [h3, errRet, hl, hl']
  · rw [if_neg hl]
    have hw1 : s.off < s.tape.size := by omega
    simp only [wr, hw1, dite_true, Res.bind_ok, Array.size_set, hlt, StepSim, Rep]
    have hvs : (values.extract s.vpos values.size).size = values.size - s.vpos := size_suffix _ _
    have hlo := leU64_suffix_lo values s.vpos (by omega)
    have hrest := suffix_suffix values s.vpos 8 (by omega)
    rw [← hvs] at hrest
    rw [← hlo, ← hrest]
    generalize values.extract s.vpos values.size = v at *
    have a1 : (8 : Int) ≤ v.size := by omega
    have a3 : min 8 v.size = 8 := by omega
    have a5 : ¬ ((v.size : Int) < 8) := by omega
    have a6 : (s.off : Int) + 1 < s.tape.size := by omega
    have a7 : (s.off : Int) < s.tape.size := by omega
    have a8 : (0 : Int) ≤ s.off + 1 := by omega
    simp [h1, h2, h3, h4, h5, h6, errRet, a1, a3, a5, a6, a7, a8, hw1, hlt, Rep]

/-- `case tagFloatWithFlag` -/
theorem clause3_sim (values : Bytes) (e : Env) (s : RebState) (t : UInt8) (fuel : Nat)
    (hR : Rep values e s) (hlt : s.off + 1 < s.tape.size) :
    StepSim values (fun _ => True) (exec goFuns fuel (caseBody 3) ⟨e, s.tape⟩)
      (if values.size - s.vpos < 16 then .error .generic else do
        let tp ← wr s.tape s.off (rdLE64 values s.vpos)
        let tp ← wr tp (s.off + 1) (rdLE64 values (s.vpos + 8))
        .ok { s with tape := tp, off := s.off + 2, vpos := s.vpos + 16 }) := by
  obtain ⟨h1, h2, h3, h4⟩ := hR
  have hbody : caseBody 3 = [
      .ite (.bin .lt (.lenB (.v "values")) (.int 16)) errRet [],
      .tapeSet "dst" (.v "off") (.le64 (.sliceB (.v "values") (.int 0) (.int 8))),
      .tapeSet "dst" (.bin .add (.v "off") (.int 1)) (.le64 (.sliceB (.v "values") (.int 8) (.int 16))),
      .assign "values" (.sliceB (.v "values") (.int 16) (.lenB (.v "values"))),
      .assign "off" (.bin .add (.v "off") (.int 2))] := rfl
  rw [hbody]
  by_cases hl : values.size - s.vpos < 16
  · rw [if_pos hl]
    have hl' : ((values.size - s.vpos : Nat) : Int) < 16 := by omega
    refine ⟨⟨e, s.tape⟩, true, ?_⟩
    simp [h3, errRet, hl, hl']
  · rw [if_neg hl]
    have hw1 : s.off < s.tape.size := by omega
    simp only [wr, hw1, dite_true, Res.bind_ok, Array.size_set, hlt, StepSim, Rep]
    have hvs : (values.extract s.vpos values.size).size = values.size - s.vpos := size_suffix _ _
    have hlo := leU64_suffix_lo values s.vpos (by omega)
    have hhi := leU64_suffix_hi values s.vpos (by omega)
    have hrest := suffix_suffix values s.vpos 16 (by omega)
    rw [← hvs] at hrest
    rw [← hlo, ← hhi, ← hrest]
    generalize values.extract s.vpos values.size = v at *
    have a1 : (8 : Int) ≤ v.size := by omega
    have a2 : (16 : Int) ≤ v.size := by omega
    have a3 : min 8 v.size = 8 := by omega
    have a4 : min 16 v.size = 16 := by omega
    have a5 : ¬ ((v.size : Int) < 16) := by omega
    have a6 : (s.off : Int) + 1 < s.tape.size := by omega
    have a7 : (s.off : Int) < s.tape.size := by omega
    have a8 : (0 : Int) ≤ s.off + 1 := by omega
    simp [h1, h2, h3, h4, errRet, a1, a2, a3, a4, a5, a6, a7, a8, hw1, hlt, Rep]

/-- `case TagNull, TagBoolTrue, TagBoolFalse, TagEnd` -/
theorem clause4_sim (values : Bytes) (e : Env) (s : RebState) (t : UInt8) (fuel : Nat)
    (hR : Rep values e s) (hT : TagVars t e) (hlt : s.off < s.tape.size) :
    StepSim values (fun _ => True) (exec goFuns fuel (caseBody 4) ⟨e, s.tape⟩)
      (do
        let tp ← wr s.tape s.off (t.toUInt64 <<< 56)
        .ok { s with tape := tp, off := s.off + 1 }) := by
  obtain ⟨h1, h2, h3, h4⟩ := hR
  obtain ⟨h5, h6⟩ := hT
  have hbody : caseBody 4 = [
      .tapeSet "dst" (.v "off") (.v "tagDst"),
      .assign "off" (.bin .add (.v "off") (.int 1))] := rfl
  rw [hbody]
  have a7 : (s.off : Int) < s.tape.size := by omega
  simp only [wr, hlt, dite_true, Res.bind_ok, Array.size_set, StepSim, Rep]
  simp [h1, h2, h3, h4, h5, h6, a7, hlt]

/-- `case TagObjectEnd, TagArrayEnd` -/
theorem clause7_sim (values : Bytes) (e : Env) (s : RebState) (t : UInt8) (fuel : Nat)
    (hR : Rep values e s) (hT : TagVars t e) (hlt : s.off < s.tape.size) :
    StepSim values (fun _ => True) (exec goFuns fuel (caseBody 7) ⟨e, s.tape⟩)
      (do
        let cur ← rd s.tape s.off
        if cur &&& wJSONTAGMASK != t.toUInt64 <<< 56 then .error .generic
        else .ok { s with off := s.off + 1 }) := by
  obtain ⟨h1, h2, h3, h4⟩ := hR
  obtain ⟨h5, h6⟩ := hT
  have hbody : caseBody 7 = [
      .ite (.bin .ne (.bin .and (.tapeAt "dst" (.v "off")) (.u64 18374686479671623680)) (.v "tagDst")) errRet [],
      .assign "off" (.bin .add (.v "off") (.int 1))] := rfl
  rw [hbody]
  have a7 : (s.off : Int) < s.tape.size := by omega
  have hr : s.tape[s.off]? = some s.tape[s.off] := by simp [hlt]
  simp only [rd, hr, Res.bind_ok]
  by_cases hm : (s.tape[s.off] &&& wJSONTAGMASK != t.toUInt64 <<< 56) = true
  · rw [if_pos hm]
    refine ⟨⟨e, s.tape⟩, true, ?_⟩
    simp only [wJSONTAGMASK] at hm
    simp [h1, h4, h6, a7, hlt, hr, hm, errRet]
  · rw [if_neg hm]
    simp only [wJSONTAGMASK, Bool.not_eq_true] at hm
    simp [h1, h2, h3, h4, h6, a7, hlt, hr, hm, errRet, StepSim, Rep]

theorem u64_ofNat_lt (n : Nat) (x : UInt64) (hn : n < 2^64) : UInt64.ofNat n < x ↔ n < x.toNat := by
  rw [UInt64.lt_iff_toNat_lt, UInt64.toNat_ofNat']
  have : n % 2^64 = n := Nat.mod_eq_of_lt hn
  rw [this]

/-- `case TagRoot` -/
theorem clause6_sim (values : Bytes) (e : Env) (s : RebState) (t : UInt8) (fuel : Nat)
    (hR : Rep values e s) (hT : TagVars t e) (hlt : s.off < s.tape.size) (hsz : s.tape.size < 2^64) :
    StepSim values (fun _ => True) (exec goFuns fuel (caseBody 6) ⟨e, s.tape⟩)
      (if values.size - s.vpos < 8 then .error .generic else
        if (rdLE64 values s.vpos + UInt64.ofNat s.off).toNat > s.tape.size then .error .generic else do
        let tp ← wr s.tape s.off ((t.toUInt64 <<< 56) ||| (rdLE64 values s.vpos + UInt64.ofNat s.off))
        .ok { s with tape := tp, off := s.off + 1, vpos := s.vpos + 8 }) := by
  obtain ⟨h1, h2, h3, h4⟩ := hR
  obtain ⟨h5, h6⟩ := hT
  have hbody : caseBody 6 = [
      .ite (.bin .lt (.lenB (.v "values")) (.int 8)) errRet [],
      .assign "val" (.le64 (.sliceB (.v "values") (.int 0) (.int 8))),
      .assign "values" (.sliceB (.v "values") (.int 8) (.lenB (.v "values"))),
      .assign "val" (.bin .add (.v "val") (.conv .u64 (.v "off"))),
      .ite (.bin .gt (.v "val") (.conv .u64 (.lenTape "dst"))) errRet [],
      .tapeSet "dst" (.v "off") (.bin .or (.v "tagDst") (.v "val")),
      .assign "off" (.bin .add (.v "off") (.int 1))] := rfl
  rw [hbody]
  by_cases hl : values.size - s.vpos < 8
  · rw [if_pos hl]
    have hl' : ((values.size - s.vpos : Nat) : Int) < 8 := by omega
    refine ⟨⟨e, s.tape⟩, true, ?_⟩
    simp [h3, errRet, hl, hl']
  · rw [if_neg hl]
    have hvs : (values.extract s.vpos values.size).size = values.size - s.vpos := size_suffix _ _
    have hlo := leU64_suffix_lo values s.vpos (by omega)
    have hrest := suffix_suffix values s.vpos 8 (by omega)
    rw [← hvs] at hrest
    simp only [Rep, StepSim]
    rw [← hlo]
    generalize values.extract s.vpos values.size = v at *
    have a1 : (8 : Int) ≤ v.size := by omega
    have a3 : min 8 v.size = 8 := by omega
    have a5 : ¬ ((v.size : Int) < 8) := by omega
    have a7 : (s.off : Int) < s.tape.size := by omega
    generalize hval : leU64 (v.extract 0 8) + UInt64.ofNat s.off = val
    have hcmp := u64_ofNat_lt s.tape.size val hsz
    by_cases hv : val.toNat > s.tape.size
    · rw [if_pos hv]
      have hv' : UInt64.ofNat s.tape.size < val := hcmp.mpr hv
      simp [h1, h2, h3, h4, h5, h6, errRet, a1, a3, a5, a7, hlt, ofInt_nat, hval, hv']
    · rw [if_neg hv]
      have hv' : ¬ UInt64.ofNat s.tape.size < val := fun h => hv (hcmp.mp h)
      simp only [wr, hlt, dite_true, Res.bind_ok, Array.size_set, StepSim, Rep]
      simp [h1, h2, h3, h4, h5, h6, errRet, a1, a3, a5, a7, hlt, ofInt_nat, hval, hv']
      exact hrest

/-- `case TagObjectStart, TagArrayStart` -/
theorem clause5_sim (values : Bytes) (e : Env) (s : RebState) (t : UInt8) (fuel : Nat)
    (hR : Rep values e s) (hT : TagVars t e) (hlt : s.off < s.tape.size) (hsz : s.tape.size + 1 < 2^64) :
    StepSim values (fun _ => True) (exec goFuns fuel (caseBody 5) ⟨e, s.tape⟩)
      (if values.size - s.vpos < 8 then .error .generic else
        if (rdLE64 values s.vpos + UInt64.ofNat s.off).toNat > s.tape.size ∨
            (rdLE64 values s.vpos + UInt64.ofNat s.off).toNat < s.off + 2 then .error .generic else do
        let tp ← wr s.tape s.off ((t.toUInt64 <<< 56) ||| (rdLE64 values s.vpos + UInt64.ofNat s.off))
        let tp ← wr tp ((rdLE64 values s.vpos + UInt64.ofNat s.off).toNat - 1)
          (((openToClose t).toUInt64 <<< 56) ||| UInt64.ofNat s.off)
        .ok { s with tape := tp, off := s.off + 1, vpos := s.vpos + 8 }) := by
  obtain ⟨h1, h2, h3, h4⟩ := hR
  obtain ⟨h5, h6⟩ := hT
  have hbody : caseBody 5 = [
      .ite (.bin .lt (.lenB (.v "values")) (.int 8)) errRet [],
      .assign "val" (.le64 (.sliceB (.v "values") (.int 0) (.int 8))),
      .assign "values" (.sliceB (.v "values") (.int 8) (.lenB (.v "values"))),
      .assign "val" (.bin .add (.v "val") (.conv .u64 (.v "off"))),
      .ite (.lor (.bin .gt (.v "val") (.conv .u64 (.lenTape "dst")))
        (.bin .lt (.v "val") (.bin .add (.conv .u64 (.v "off")) (.u64 2)))) errRet [],
      .tapeSet "dst" (.v "off") (.bin .or (.v "tagDst") (.v "val")),
      .tapeSet "dst" (.bin .sub (.v "val") (.u64 1)) (.bin .or (.bin .shl (.conv .u64 (.tbl "tagOpenToClose" (.v "tag"))) (.int 56)) (.conv .u64 (.v "off"))),
      .assign "off" (.bin .add (.v "off") (.int 1))] := rfl
  rw [hbody]
  by_cases hl : values.size - s.vpos < 8
  · rw [if_pos hl]
    have hl' : ((values.size - s.vpos : Nat) : Int) < 8 := by omega
    refine ⟨⟨e, s.tape⟩, true, ?_⟩
    simp [h3, errRet, hl, hl']
  · rw [if_neg hl]
    have hvs : (values.extract s.vpos values.size).size = values.size - s.vpos := size_suffix _ _
    have hlo := leU64_suffix_lo values s.vpos (by omega)
    have hrest := suffix_suffix values s.vpos 8 (by omega)
    rw [← hvs] at hrest
    simp only [Rep, StepSim]
    rw [← hlo]
    generalize values.extract s.vpos values.size = v at *
    have a1 : (8 : Int) ≤ v.size := by omega
    have a3 : min 8 v.size = 8 := by omega
    have a5 : ¬ ((v.size : Int) < 8) := by omega
    have a7 : (s.off : Int) < s.tape.size := by omega
    generalize hval : leU64 (v.extract 0 8) + UInt64.ofNat s.off = val
    have hcmp := u64_ofNat_lt s.tape.size val (by omega)
    have hoff2 : (UInt64.ofNat s.off + 2).toNat = s.off + 2 := by
      rw [UInt64.toNat_add, UInt64.toNat_ofNat']
      have : s.off % 2^64 = s.off := Nat.mod_eq_of_lt (by omega)
      rw [this]
      have : (2 : UInt64).toNat = 2 := rfl
      rw [this]
      exact Nat.mod_eq_of_lt (by omega)
    have hcmp2 : val < UInt64.ofNat s.off + 2 ↔ val.toNat < s.off + 2 := by
      rw [UInt64.lt_iff_toNat_lt, hoff2]
    by_cases hv : val.toNat > s.tape.size ∨ val.toNat < s.off + 2
    · rw [if_pos hv]
      by_cases hv1 : val.toNat > s.tape.size
      · have hv' : UInt64.ofNat s.tape.size < val := hcmp.mpr hv1
        simp [h1, h2, h3, h4, h5, h6, errRet, a1, a3, a5, a7, hlt, ofInt_nat, hval, hv']
      · have hv' : ¬ UInt64.ofNat s.tape.size < val := fun h => hv1 (hcmp.mp h)
        have hv2 : val < UInt64.ofNat s.off + 2 := hcmp2.mpr (by omega)
        simp [h1, h2, h3, h4, h5, h6, errRet, a1, a3, a5, a7, hlt, ofInt_nat, hval, hv', hv2]
    · rw [if_neg hv]
      have hv' : ¬ UInt64.ofNat s.tape.size < val := fun h => hv (Or.inl (hcmp.mp h))
      have hv2 : ¬ val < UInt64.ofNat s.off + 2 := fun h => hv (Or.inr (hcmp2.mp h))
      have hk : (val - 1).toNat = val.toNat - 1 := by
        apply UInt64.toNat_sub_of_le
        rw [UInt64.le_iff_toNat_le]
        have : (1 : UInt64).toNat = 1 := rfl
        omega
      have hk1 : val.toNat - 1 < s.tape.size := by omega
      have hk2 : ((val.toNat - 1 : Nat) : Int) < s.tape.size := by omega
      simp only [wr, hlt, hk1, dite_true, Res.bind_ok, Array.size_set, StepSim, Rep]
      simp [h1, h2, h3, h4, h5, h6, errRet, a1, a3, a5, a7, hlt, ofInt_nat, hval, hv', hv2, hk, hk1, hk2, openToClose]
      exact hrest

/-- the two switches of the loop body = `dispatch` -/
theorem dispatch_sim (values : Bytes) (e : Env) (s : RebState) (t : UInt8) (fuel : Nat)
    (hR : Rep values e s) (hT : TagVars t e) (hlt : s.off < s.tape.size) (hsz : s.tape.size + 1 < 2^64) :
    StepSim values (fun _ => True) (exec goFuns fuel [guardSw, mainSw] ⟨e, s.tape⟩) (dispatch values t s) := by
  have h1 := hR.1
  have h4 := hR.2.2.2
  have h5 := hT.1
  unfold dispatch
  simp only [inCase_nop, inCase_string, inCase_num, inCase_flag, inCase_atom, inCase_open, inCase_root, inCase_close,
    inCase_two, decide_eq_true_eq]
  rw [exec, guard_exec e s.tape s.off s.tape.size t fuel h1 h4 h5]
  by_cases hg : (t = 34 ∨ t = 100 ∨ t = 108 ∨ t = 117 ∨ t = 101) ∧ s.off + 1 ≥ s.tape.size
  · rw [if_pos hg, if_pos hg]; exact ⟨_, _, rfl⟩
  rw [if_neg hg, if_neg hg]
  simp only []
  rw [exec_single, mainSw_select e s.tape t fuel h5]
  by_cases h0 : t = 78
  · have hk : clauseOf t = some 0 := by simp [clauseOf, h0]
    rw [hk, if_pos h0]
    exact clause0_sim values e s t fuel hR
  rw [if_neg h0]
  by_cases h1' : t = 34
  · have hk : clauseOf t = some 1 := by simp [clauseOf, h1']
    rw [hk, if_pos h1']
    refine clause1_sim values e s t fuel hR hT ?_
    have : ¬ s.off + 1 ≥ s.tape.size := fun h => hg ⟨Or.inl h1', h⟩
    omega
  rw [if_neg h1']
  by_cases h2 : t = 100 ∨ t = 108 ∨ t = 117
  · have hk : clauseOf t = some 2 := by simp [clauseOf, h0, h1', h2]
    rw [hk, if_pos h2]
    refine clause2_sim values e s t fuel hR hT ?_
    have : t = 34 ∨ t = 100 ∨ t = 108 ∨ t = 117 ∨ t = 101 := by
      rcases h2 with h | h | h <;> simp [h]
    have : ¬ s.off + 1 ≥ s.tape.size := fun h => hg ⟨this, h⟩
    omega
  rw [if_neg h2]
  by_cases h3 : t = 101
  · have hk : clauseOf t = some 3 := by simp [clauseOf, h3]
    rw [hk, if_pos h3]
    refine clause3_sim values e s t fuel hR ?_
    have : t = 34 ∨ t = 100 ∨ t = 108 ∨ t = 117 ∨ t = 101 := by simp [h3]
    have : ¬ s.off + 1 ≥ s.tape.size := fun h => hg ⟨this, h⟩
    omega
  rw [if_neg h3]
  by_cases h4' : t = 110 ∨ t = 116 ∨ t = 102 ∨ t = 0
  · have hk : clauseOf t = some 4 := by simp [clauseOf, h0, h1', h2, h3, h4']
    rw [hk, if_pos h4']
    exact clause4_sim values e s t fuel hR hT hlt
  rw [if_neg h4']
  by_cases h5' : t = 123 ∨ t = 91
  · have hk : clauseOf t = some 5 := by simp [clauseOf, h0, h1', h2, h3, h4', h5']
    rw [hk, if_pos h5']
    exact clause5_sim values e s t fuel hR hT hlt hsz
  rw [if_neg h5']
  by_cases h6 : t = 114
  · have hk : clauseOf t = some 6 := by simp [clauseOf, h6]
    rw [hk, if_pos h6]
    exact clause6_sim values e s t fuel hR hT hlt (by omega)
  rw [if_neg h6]
  by_cases h7 : t = 125 ∨ t = 93
  · have hk : clauseOf t = some 7 := by simp [clauseOf, h0, h1', h2, h3, h4', h5', h6, h7]
    rw [hk, if_pos h7]
    exact clause7_sim values e s t fuel hR hT hlt
  rw [if_neg h7]
  have hk : clauseOf t = none := by simp [clauseOf, h0, h1', h2, h3, h4', h5', h6, h7]
  rw [hk]
  exact ⟨_, _, rfl⟩

/-- **one iteration of the `range` loop = `rebStep`** -/
theorem step_sim (values : Bytes) (e : Env) (s : RebState) (t : UInt8) (fuel : Nat)
    (hR : Rep values e s) (ht : e.get "t" = some (.u8 t)) (hoff : s.off ≤ s.tape.size)
    (hsz : s.tape.size + 1 < 2^64) (hf : s.tape.size + 2 ≤ fuel) :
    StepSim values (fun _ => True) (exec goFuns fuel loopBody ⟨e, s.tape⟩) (rebStep values s t) := by
  rw [rebStep_eq, loopBody_eq, exec_append]
  have hh := head_sim values e s t fuel hR ht hf
  by_cases heq : s.off = s.tape.size
  · have hb : (s.off == s.tape.size) = true := by simp [heq]
    rw [hb] at hh ⊢
    simp only [if_true] at hh ⊢
    obtain ⟨st, p, ho⟩ := hh
    rw [ho]; exact ⟨st, p, rfl⟩
  · have hb : (s.off == s.tape.size) = false := by simp [heq]
    rw [hb] at hh ⊢
    simp only [Bool.false_eq_true, if_false] at hh ⊢
    have hlt : s.off < s.tape.size := by omega
    rcases flushPhase_spec s t hlt with ⟨s1, e1, z1, o1⟩ | e1
    · rw [e1] at hh ⊢
      obtain ⟨e', ho, hR', hT'⟩ := hh
      rw [ho]
      simp only [Res.bind_ok]
      exact dispatch_sim values e' s1 t fuel hR' hT' o1 (by omega)
    · rw [e1] at hh ⊢
      obtain ⟨st, p, ho⟩ := hh
      rw [ho]; exact ⟨st, p, rfl⟩

theorem Rep.set_t {values : Bytes} {e : Env} {s : RebState} (h : Rep values e s) (v : Val) :
    Rep values (e.set "t" v) s := by
  obtain ⟨h1, h2, h3, h4⟩ := h
  exact ⟨by simp [h1], by simp [h2], by simp [h3], by simp [h4]⟩

/-- **the `range` loop = `rebLoop`** -/
theorem loop_sim (values : Bytes) (fuel : Nat) : ∀ (ts : List UInt8) (e : Env) (s : RebState),
    Rep values e s → s.off ≤ s.tape.size → s.tape.size + 1 < 2^64 → s.tape.size + 2 ≤ fuel →
    StepSim values (fun _ => True) (execRange goFuns fuel "t" ts loopBody ⟨e, s.tape⟩) (rebLoop values s ts) := by
  intro ts
  induction ts with
  | nil =>
    intro e s hR hoff hsz hf
    rw [execRange, rebLoop]
    exact ⟨e, rfl, hR, trivial⟩
  | cons t ts ih =>
    intro e s hR hoff hsz hf
    rw [execRange, rebLoop]
    have hstep := step_sim values (e.set "t" (.u8 t)) s t fuel (hR.set_t _) (by simp) hoff hsz hf
    rcases rebStep_spec values s t hoff with ⟨s1, e1, z1, o1⟩ | ⟨err, e1⟩
    · rw [e1] at hstep ⊢
      obtain ⟨e', ho, hR', _⟩ := hstep
      simp only [] at ho ⊢
      rw [ho]
      simp only [Res.bind_ok]
      exact ih e' s1 hR' o1 (by omega) (by omega)
    · rw [e1] at hstep ⊢
      obtain ⟨st, p, ho⟩ := hstep
      simp only [] at ho ⊢
      rw [ho]
      exact ⟨st, p, rfl⟩

/-! ## after the loop -/

/-- the statements after the loop, in the model -/
def rebTail (values : Bytes) (s : RebState) : Res (Array UInt64) := do
  let (tp, off) ← (if s.nSkips > 0 then
      if s.nSkips > s.tape.size - s.off then (.error .generic : Res (Array UInt64 × Nat))
      else flushSkips s.tape s.off s.nSkips s.nSkips
    else .ok (s.tape, s.off))
  if off != tp.size then .error .generic
  else if values.size - s.vpos > 0 then .error .generic
  else .ok tp

theorem rebuild_eq (init : Array UInt64) (tags values : Bytes) :
    rebuild init tags values = rebLoop values { tape := init } tags.toList >>= rebTail values := rfl

/-- outcome of the interpreter vs result of the model -/
def SimReb (o : Out) (r : Res (Array UInt64)) : Prop :=
  match r with
  | .ok tp => ∃ s, o = .ret s [.bool true, .bool false] ∧ s.tape = tp        -- `return dst, nil`
  | .error _ => ∃ s p, o = .ret s [.bool p, .bool true]                        -- `return dst/nil, err`
  | .panic => o = .panic
  | .diverge => False

/-- the two size checks and `return dst, nil` -/
theorem final_exec (e : Env) (tp : Array UInt64) (off' : Nat) (v : Bytes) (fuel : Nat)
    (h1 : e.get "off" = some (.int off')) (h4 : e.get "dst.lim" = some (.int tp.size))
    (h3 : e.get "values" = some (.bytes v)) :
    exec goFuns fuel (tailStmts.drop 1) ⟨e, tp⟩ =
      if off' ≠ tp.size then .ret ⟨e, tp⟩ [.bool true, .bool true]
      else if v.size > 0 then .ret ⟨e, tp⟩ [.bool true, .bool true]
      else .ret ⟨e, tp⟩ [.bool true, .bool false] := by
  rw [tail_eq]
  by_cases ho : off' = tp.size
  · by_cases hv : v.size > 0
    · simp [h1, h4, h3, ho, hv, errRet]
    · have : v.size = 0 := by omega
      simp [h1, h4, h3, ho, this, errRet]
  · have hne : ((off' : Int) != (tp.size : Int)) = true := by
      have : ¬ ((off' : Int) = tp.size) := by omega
      simp [this]
    simp [h1, h4, h3, ho, hne, errRet]

theorem final_sim (values : Bytes) (e : Env) (tp : Array UInt64) (off' vpos : Nat) (fuel : Nat)
    (h1 : e.get "off" = some (.int off')) (h4 : e.get "dst.lim" = some (.int tp.size))
    (h3 : e.get "values" = some (.bytes (values.extract vpos values.size))) :
    SimReb (exec goFuns fuel (tailStmts.drop 1) ⟨e, tp⟩)
      (if off' != tp.size then .error .generic
       else if values.size - vpos > 0 then .error .generic
       else .ok tp) := by
  rw [final_exec e tp off' _ fuel h1 h4 h3, size_suffix]
  by_cases ho : off' = tp.size
  · have hb : (off' != tp.size) = false := by simp [ho]
    rw [hb, if_neg (by simp [ho])]
    simp only [Bool.false_eq_true, if_false]
    by_cases hv : values.size - vpos > 0
    · rw [if_pos hv, if_pos hv]; exact ⟨_, _, rfl⟩
    · rw [if_neg hv, if_neg hv]; exact ⟨_, rfl, rfl⟩
  · have hb : (off' != tp.size) = true := by simp [ho]
    rw [hb, if_pos ho]
    exact ⟨_, _, rfl⟩

theorem tail_sim (values : Bytes) (e : Env) (s : RebState) (fuel : Nat)
    (hR : Rep values e s) (hf : s.tape.size + 2 ≤ fuel) :
    SimReb (exec goFuns fuel tailStmts ⟨e, s.tape⟩) (rebTail values s) := by
  obtain ⟨h1, h2, h3, h4⟩ := hR
  have hsplit : tailStmts = tailStmts.take 1 ++ tailStmts.drop 1 := rfl
  have hvs : (values.extract s.vpos values.size).size = values.size - s.vpos := size_suffix _ _
  rw [hsplit, exec_append]
  unfold rebTail
  by_cases hn : s.nSkips > 0
  · rw [if_pos hn]
    have hpos : 0 < s.nSkips := hn
    have hcond : evalE ⟨e, s.tape⟩ (.bin .gt (.v "nSkips") (.int 0)) = .val (.bool true) := by
      simp [h2, hpos]
    by_cases hgt : s.nSkips > s.tape.size - s.off
    · rw [if_pos hgt]
      have hgt' : (s.tape.size : Int) - s.off < s.nSkips := by omega
      have : exec goFuns fuel (tailStmts.take 1) ⟨e, s.tape⟩ = .ret ⟨e, s.tape⟩ [.bool true, .bool true] := by
        simp [tail_eq, errRet, h1, h2, h4, hpos, hgt']
      rw [this]
      exact ⟨_, _, rfl⟩
    · rw [if_neg hgt]
      have hgt' : ¬ (s.tape.size : Int) - s.off < s.nSkips := by omega
      obtain ⟨e', tp, hfl, hsz, hex, k1, k2, k3⟩ := flush_seq ⟨e, s.tape⟩ s.off s.nSkips fuel (by omega)
        (by show s.off + s.nSkips ≤ s.tape.size; omega) h1 h2 h4
      have hinner : exec1 goFuns fuel (.ite (.bin .gt (.v "nSkips") (.bin .sub (.lenTape "dst") (.v "off"))) errRet [])
          ⟨e, s.tape⟩ = .normal ⟨e, s.tape⟩ := by
        simp [h1, h2, h4, hgt']
      have hgo : exec goFuns fuel (tailStmts.take 1) ⟨e, s.tape⟩ = .normal ⟨e', tp⟩ := by
        simp only [tail_eq, List.take]
        rw [exec, exec1, hcond]
        simp only []
        rw [exec, hinner]
        simp only []
        rw [hex]
        simp only [exec]
      rw [hgo, hfl]
      simp only [Res.bind_ok]
      refine final_sim values e' tp (s.off + s.nSkips) s.vpos fuel k1 ?_ ?_
      · rw [k3 _ (by decide) (by decide) (by decide), h4, hsz]
      · rw [k3 _ (by decide) (by decide) (by decide)]; exact h3
  · rw [if_neg hn]
    have hpos : ¬ 0 < s.nSkips := hn
    have : exec goFuns fuel (tailStmts.take 1) ⟨e, s.tape⟩ = .normal ⟨e, s.tape⟩ := by
      simp [tail_eq, h2, hpos]
    rw [this]
    simp only [Res.bind_ok]
    exact final_sim values e s.tape s.off s.vpos fuel h1 h4 h3

/-! ## the whole block -/

/-- the inputs of the translated block: the two decompressed streams and the destination tape -/
def rebStore (init : Array UInt64) (tags values : Bytes) : St :=
  { env := [("s.tagsBuf", .bytes tags), ("s.valuesBuf", .bytes values), ("dst.lim", .int init.size)], tape := init }

theorem SimReb.final {o : Out} {r : Res (Array UInt64)} (h : SimReb o r) (funs : String → Option FunDef)
    (fd : FunDef) (fuel : Nat) (s : St) (he : exec funs fuel fd.body s = o) : runFun funs fd fuel s = o := by
  unfold runFun
  rw [he]
  cases r with
  | ok tp => obtain ⟨s, rfl, _⟩ := h; rfl
  | error e => obtain ⟨s, p, rfl⟩ := h; rfl
  | panic => simp only [SimReb] at h; subst h; rfl
  | diverge => exact h.elim

theorem body_split : goDeserialize_rebuild.body =
    ([.assign "off" (.int 0), .assign "values" (.v "s.valuesBuf"), .assign "nSkips" (.int 0)] ++
     [.rangeB "t" (.v "s.tagsBuf") loopBody]) ++ tailStmts := rfl

/-- **the hand model `rebuild` is the meaning of the regenerated reconstruction block of `Deserialize`**
    (`init.size + 1 < 2^64`: Go compares `val > uint64(len(dst.Tape))` and `val < uint64(off)+2` in `uint64`, the model
    in `Nat`; fuel: the longest inner loop writes at most `len(dst.Tape)` skips). -/
theorem rebuild_source_tie' (init : Array UInt64) (tags values : Bytes) (hsz : init.size + 1 < 2^64) (fuel : Nat)
    (hf : init.size + 2 ≤ fuel) :
    SimReb (runFun goFuns goDeserialize_rebuild fuel (rebStore init tags values)) (rebuild init tags values) := by
  have key : SimReb (exec goFuns fuel goDeserialize_rebuild.body (rebStore init tags values))
      (rebuild init tags values) := by
    rw [body_split, exec_append, exec_append, rebuild_eq]
    have hpre : exec goFuns fuel [.assign "off" (.int 0), .assign "values" (.v "s.valuesBuf"),
        .assign "nSkips" (.int 0)] (rebStore init tags values) =
        .normal ⟨[("s.tagsBuf", .bytes tags), ("s.valuesBuf", .bytes values), ("dst.lim", .int init.size),
          ("off", .int 0), ("values", .bytes values), ("nSkips", .int 0)], init⟩ := by
      simp [rebStore, Env.get, Env.set]
    rw [hpre]
    simp only []
    rw [exec_single, exec1]
    simp only [evalE, Env.get, String.reduceBEq, if_true]
    generalize he0 : ([("s.tagsBuf", Val.bytes tags), ("s.valuesBuf", .bytes values), ("dst.lim", .int init.size),
          ("off", .int 0), ("values", .bytes values), ("nSkips", .int 0)] : Env) = e0
    have hR : Rep values e0 { tape := init } := by
      subst he0
      refine ⟨by simp [Env.get], by simp [Env.get], ?_, by simp [Env.get]⟩
      simp [Env.get]
    have hloop := loop_sim values fuel tags.toList e0 { tape := init } hR (Nat.zero_le _) hsz hf
    simp only [] at hloop
    rcases rebLoop_spec values tags.toList { tape := init } (Nat.zero_le _) with ⟨s1, e1, z1, o1⟩ | ⟨err, e1⟩
    · rw [e1] at hloop ⊢
      obtain ⟨e', ho, hR', _⟩ := hloop
      rw [ho]
      simp only [Res.bind_ok]
      exact tail_sim values e' s1 fuel hR' (by simp only [] at z1; omega)
    · rw [e1] at hloop ⊢
      obtain ⟨st, p, ho⟩ := hloop
      rw [ho]
      exact ⟨st, p, rfl⟩
  rw [key.final _ _ _ _ rfl]
  exact key

/-- the statement in the requested shape (`len(dst.Tape) < 2^56` is what a tape offset must satisfy anyway) -/
theorem rebuild_source_tie (init : Array UInt64) (tags values : Bytes) (hsz : init.size < 2^56) (fuel : Nat)
    (hf : init.size + 8 ≤ fuel) :
    SimReb (runFun goFuns goDeserialize_rebuild fuel (rebStore init tags values)) (rebuild init tags values) :=
  rebuild_source_tie' init tags values (by omega) fuel (by omega)

end SJ.GoRebuild
