import SJ.Basic
import SJ.Spec.F64
/-
RFC 8259, written production by production as a scannerless recursive descent over bytes, together
with the value a text denotes.  This file is specification: it does not mention tapes, SIMD,
indices or any identifier of the implementation.

Outcomes: `acc v rest` (a value was read), `rej` (not JSON), `out` (the text leaves the part of the
language the properties make a claim about: ill-formed surrogate escapes or non-UTF-8 bytes inside a
string).
-/
namespace SJ.Spec

/-- Numbers as the API promises to expose them (C03). -/
inductive Num where
  | int (z : Int)                       -- fits int64
  | uint (n : Nat)                      -- fits uint64, not int64
  | float (bits : UInt64) (flag : Bool) -- flag = integer literal that overflowed both
  deriving DecidableEq, Repr, Inhabited

inductive JVal where
  | null
  | bool (b : Bool)
  | num (n : Num)
  | str (s : List UInt8)
  | arr (l : List JVal)
  | obj (l : List (List UInt8 × JVal))   -- source order, duplicates kept
  deriving Inhabited

inductive Out (α : Type) where
  | acc (a : α) (rest : List UInt8)
  | rej
  | out
  deriving Inhabited

-- §2 white space ------------------------------------------------------------------------------------

def isWs (c : UInt8) : Bool := c == 0x20 || c == 0x09 || c == 0x0A || c == 0x0D

def skipWs : List UInt8 → List UInt8
  | c :: r => if isWs c then skipWs r else c :: r
  | [] => []

-- §6 numbers -----------------------------------------------------------------------------------------

def isDigit (c : UInt8) : Bool := 0x30 ≤ c && c ≤ 0x39

def digitsVal (ds : List UInt8) : Nat := ds.foldl (fun a d => a * 10 + (d.toNat - 48)) 0

/-- number = [ minus ] int [ frac ] [ exp ]; returns the pieces and the rest. -/
structure NumLit where
  neg : Bool
  int : List UInt8
  frac : Option (List UInt8)
  exp : Option (Bool × List UInt8)

def numberLit (s : List UInt8) : Option (NumLit × List UInt8) :=
  let (neg, s) := match s with | 0x2D :: r => (true, r) | r => (false, r)
  let ip := s.takeWhile isDigit
  let s := s.dropWhile isDigit
  -- int = zero / ( digit1-9 *DIGIT )
  if ip.isEmpty ∨ (ip.length > 1 ∧ ip.head? == some 0x30) then none else
  let (frac, s, okF) := match s with
    | 0x2E :: r =>
      let fp := r.takeWhile isDigit
      if fp.isEmpty then (none, s, false) else (some fp, r.dropWhile isDigit, true)
    | _ => (none, s, true)
  if !okF then none else
  let (exp, s, okE) := match s with
    | c :: r =>
      if c == 0x65 ∨ c == 0x45 then
        let (eneg, r) := match r with | 0x2B :: x => (false, x) | 0x2D :: x => (true, x) | x => (false, x)
        let ep := r.takeWhile isDigit
        if ep.isEmpty then (none, s, false) else (some (eneg, ep), r.dropWhile isDigit, true)
      else (none, s, true)
    | [] => (none, s, true)
  if !okE then none else some ({ neg := neg, int := ip, frac := frac, exp := exp }, s)

/-- The value of a number literal as C03 states it; `none` = not finite as float64. -/
def numValue (l : NumLit) : Option Num :=
  match l.frac, l.exp with
  | none, none =>
    let n := digitsVal l.int
    let z : Int := if l.neg then -(n : Int) else n
    if -(2^63 : Int) ≤ z ∧ z < 2^63 then some (.int z)
    else if 0 ≤ z ∧ z < 2^64 then some (.uint n)
    else (F64.roundDecimal l.neg n 0).map (.float · true)
  | _, _ =>
    let fp := l.frac.getD []
    let m := digitsVal (l.int ++ fp)
    let e10 : Int :=
      match l.exp with
      | none => 0
      | some (eneg, ds) =>
        let sig := ds.dropWhile (· == 0x30)
        let e : Int := if sig.length > 7 then 10000000 else digitsVal sig
        if eneg then -e else e
    (F64.roundDecimal l.neg m (e10 - fp.length)).map (.float · false)

-- §7 strings -----------------------------------------------------------------------------------------

def hexVal (c : UInt8) : Option Nat :=
  if 0x30 ≤ c ∧ c ≤ 0x39 then some (c.toNat - 0x30)
  else if 0x41 ≤ c ∧ c ≤ 0x46 then some (c.toNat - 0x41 + 10)
  else if 0x61 ≤ c ∧ c ≤ 0x66 then some (c.toNat - 0x61 + 10)
  else none

def hex4 : List UInt8 → Option (Nat × List UInt8)
  | a :: b :: c :: d :: r =>
    match hexVal a, hexVal b, hexVal c, hexVal d with
    | some w, some x, some y, some z => some (w * 4096 + x * 256 + y * 16 + z, r)
    | _, _, _, _ => none
  | _ => none

/-- UTF-8 encoding of a Unicode scalar value, through Lean's own `String`. -/
def utf8 (cp : Nat) : List UInt8 := (String.singleton (Char.ofNat cp)).toUTF8.data.toList

/-- Length of the well-formed UTF-8 sequence at the head (Unicode Table 3-7), 0 if ill-formed. -/
def utf8Len : List UInt8 → Nat
  | b0 :: r =>
    if b0 < 0x80 then 1
    else if 0xC2 ≤ b0 ∧ b0 ≤ 0xDF then
      match r with | b1 :: _ => if 0x80 ≤ b1 ∧ b1 ≤ 0xBF then 2 else 0 | _ => 0
    else if 0xE0 ≤ b0 ∧ b0 ≤ 0xEF then
      match r with
      | b1 :: b2 :: _ =>
        let lo : UInt8 := if b0 == 0xE0 then 0xA0 else 0x80
        let hi : UInt8 := if b0 == 0xED then 0x9F else 0xBF
        if lo ≤ b1 ∧ b1 ≤ hi ∧ 0x80 ≤ b2 ∧ b2 ≤ 0xBF then 3 else 0
      | _ => 0
    else if 0xF0 ≤ b0 ∧ b0 ≤ 0xF4 then
      match r with
      | b1 :: b2 :: b3 :: _ =>
        let lo : UInt8 := if b0 == 0xF0 then 0x90 else 0x80
        let hi : UInt8 := if b0 == 0xF4 then 0x8F else 0xBF
        if lo ≤ b1 ∧ b1 ≤ hi ∧ 0x80 ≤ b2 ∧ b2 ≤ 0xBF ∧ 0x80 ≤ b3 ∧ b3 ≤ 0xBF then 4 else 0
      | _ => 0
    else 0
  | [] => 0

/-- Characters after the opening quotation mark, up to and including the closing one.
    `outside` is latched: the text is still checked against the grammar. -/
def stringBody (fuel : Nat) (s : List UInt8) (acc : List UInt8) (outside : Bool) : Out (List UInt8) :=
  match fuel with
  | 0 => .rej
  | fuel + 1 =>
  match s with
  | [] => .rej
  | c :: r =>
    if c == 0x22 then (if outside then .out else .acc acc.reverse r)
    else if c < 0x20 then .rej
    else if c == 0x5C then
      match r with
      | [] => .rej
      | e :: r' =>
        let simple (b : UInt8) := stringBody fuel r' (b :: acc) outside
        if e == 0x22 then simple 0x22
        else if e == 0x5C then simple 0x5C
        else if e == 0x2F then simple 0x2F
        else if e == 0x62 then simple 0x08
        else if e == 0x66 then simple 0x0C
        else if e == 0x6E then simple 0x0A
        else if e == 0x72 then simple 0x0D
        else if e == 0x74 then simple 0x09
        else if e == 0x75 then
          match hex4 r' with
          | none => .rej
          | some (cu, r'') =>
            if 0xD800 ≤ cu ∧ cu < 0xDC00 then
              -- high surrogate: a well-formed pair gives one code point, anything else is outside the claim
              match r'' with
              | 0x5C :: 0x75 :: r3 =>
                match hex4 r3 with
                | some (lo, r4) =>
                  if 0xDC00 ≤ lo ∧ lo < 0xE000 then
                    stringBody fuel r4 ((utf8 (0x10000 + (cu - 0xD800) * 1024 + (lo - 0xDC00))).reverse ++ acc) outside
                  else stringBody fuel r'' acc true
                | none => stringBody fuel r'' acc true
              | _ => stringBody fuel r'' acc true
            else if 0xDC00 ≤ cu ∧ cu < 0xE000 then stringBody fuel r'' acc true
            else stringBody fuel r'' ((utf8 cu).reverse ++ acc) outside
        else .rej
    else if c < 0x80 then stringBody fuel r (c :: acc) outside
    else
      let n := utf8Len s
      if n == 0 then stringBody fuel r acc true
      else stringBody fuel (s.drop n) ((s.take n).reverse ++ acc) outside

-- §3 values, §4 objects, §5 arrays ---------------------------------------------------------------

def literal (name : List UInt8) (v : JVal) (s : List UInt8) : Out JVal :=
  if name.isPrefixOf s then .acc v (s.drop name.length) else .rej

mutual
/-- value = false / null / true / object / array / number / string -/
def value (fuel : Nat) (s : List UInt8) : Out JVal :=
  match fuel with
  | 0 => .rej
  | fuel + 1 =>
  match s with
  | [] => .rej
  | c :: r =>
    if c == 0x7B then members fuel (skipWs r) [] true
    else if c == 0x5B then elements fuel (skipWs r) [] true
    else if c == 0x22 then
      match stringBody (s.length + 1) r [] false with
      | .acc b rest => .acc (.str b) rest
      | .rej => .rej
      | .out => .out
    else if c == 0x74 then literal "true".toUTF8.data.toList (.bool true) s
    else if c == 0x66 then literal "false".toUTF8.data.toList (.bool false) s
    else if c == 0x6E then literal "null".toUTF8.data.toList .null s
    else if c == 0x2D ∨ isDigit c then
      match numberLit s with
      | none => .rej
      | some (l, rest) =>
        match numValue l with
        | some n => .acc (.num n) rest
        | none => .rej
    else .rej

/-- after `[ ws`: `]`, or value *( ws , ws value ) ws `]` -/
def elements (fuel : Nat) (s : List UInt8) (acc : List JVal) (first : Bool) : Out JVal :=
  match fuel with
  | 0 => .rej
  | fuel + 1 =>
  match s with
  | 0x5D :: r => if first then .acc (.arr acc.reverse) r else .rej
  | _ =>
    match value fuel s with
    | .acc v rest =>
      match skipWs rest with
      | 0x2C :: r => elements fuel (skipWs r) (v :: acc) false
      | 0x5D :: r => .acc (.arr (v :: acc).reverse) r
      | _ => .rej
    | .rej => .rej
    | .out => .out

/-- after `{ ws`: `}`, or member *( ws , ws member ) ws `}` with member = string ws : ws value -/
def members (fuel : Nat) (s : List UInt8) (acc : List (List UInt8 × JVal)) (first : Bool) : Out JVal :=
  match fuel with
  | 0 => .rej
  | fuel + 1 =>
  match s with
  | 0x7D :: r => if first then .acc (.obj acc.reverse) r else .rej
  | 0x22 :: r =>
    match stringBody (s.length + 1) r [] false with
    | .acc k rest =>
      match skipWs rest with
      | 0x3A :: r2 =>
        match value fuel (skipWs r2) with
        | .acc v rest2 =>
          match skipWs rest2 with
          | 0x2C :: r3 => members fuel (skipWs r3) ((k, v) :: acc) false
          | 0x7D :: r3 => .acc (.obj ((k, v) :: acc).reverse) r3
          | _ => .rej
        | .rej => .rej
        | .out => .out
      | _ => .rej
    | .rej => .rej
    | .out => .out
  | _ => .rej
end

inductive Verdict where
  | accept (v : JVal)
  | reject
  | outside
  deriving Inhabited

/-- JSON-text = ws value ws, with the value an object or array (what C01 claims about `Parse`). -/
def containerText (s : List UInt8) : Verdict :=
  match skipWs s with
  | [] => .reject
  | c :: r =>
    if c == 0x7B ∨ c == 0x5B then
      match value (s.length + 2) (c :: r) with
      | .acc v rest => if (skipWs rest).isEmpty then .accept v else
          -- a grammatical prefix followed by more content: not JSON (unless only an `out` string follows; still not JSON)
          .reject
      | .rej => .reject
      | .out => .outside
    else .reject

/-- Lines of an NDJSON text (split at LF). -/
def splitLines (s : List UInt8) : List (List UInt8) :=
  let rec go (s : List UInt8) (cur : List UInt8) (acc : List (List UInt8)) : List (List UInt8) :=
    match s with
    | [] => (cur.reverse :: acc).reverse
    | c :: r => if c == 0x0A then go r [] (cur.reverse :: acc) else go r (c :: cur) acc
  go s [] []

def isBlank (l : List UInt8) : Bool := l.all isWs

/-- What C08 claims about `ParseND`: every non-blank line is a container text. -/
def ndText (s : List UInt8) : Verdict :=
  let ls := (splitLines s).filter (fun l => !isBlank l)
  if ls.isEmpty then .reject else
  let rec go (ls : List (List UInt8)) (acc : List JVal) (outside : Bool) : Verdict :=
    match ls with
    | [] => if outside then .outside else .accept (.arr acc.reverse)
    | l :: r =>
      match containerText l with
      | .accept v => go r (v :: acc) outside
      | .reject => .reject
      | .outside => go r acc true
  go ls [] false

end SJ.Spec
