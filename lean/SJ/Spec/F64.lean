import SJ.Basic
/-
IEEE-754 binary64 on bit patterns with exact integer arithmetic (Lean's `Float` is opaque to the
kernel, so it is not used anywhere).  Everything here is specification: decoding, exact
comparison with integers, truncation toward zero, and correctly rounded conversion
(round-to-nearest, ties-to-even) from integers and from decimal `m · 10^e`.
-/
namespace SJ.F64

inductive Val where
  | nan
  | inf (neg : Bool)
  | fin (neg : Bool) (m : Nat) (e : Int)   -- (-1)^neg · m · 2^e
  deriving Repr, DecidableEq

def decode (b : UInt64) : Val :=
  let neg := (b >>> 63) != 0
  let ex := ((b >>> 52) &&& 0x7ff).toNat
  let fr := (b &&& 0xfffffffffffff).toNat
  if ex == 0x7ff then (if fr == 0 then .inf neg else .nan)
  else if ex == 0 then .fin neg fr (-1074)
  else .fin neg (fr + 2^52) ((ex : Int) - 1075)

def isFinite (b : UInt64) : Bool := ((b >>> 52) &&& 0x7ff) != 0x7ff

def signBit (neg : Bool) : UInt64 := if neg then (1 : UInt64) <<< 63 else 0

/-- Round the non-negative real `(n + ε)·2^e` (ε ∈ [0,1), ε > 0 iff `sticky`) to the nearest
    binary64, ties to even; `none` = overflow to infinity.  Requires, when `sticky`, that `n`
    carries at least 55 significant bits (callers scale accordingly). -/
def roundPos (n : Nat) (e : Int) (sticky : Bool) : Option UInt64 :=
  if n == 0 then some 0 else
  let len : Int := (n.log2 + 1 : Nat)
  let et : Int := max (e + len - 53) (-1074)
  let shift : Int := et - e
  let m0 : Nat := if shift ≤ 0 then n <<< shift.natAbs else n >>> shift.toNat
  let up : Bool :=
    if shift ≤ 0 then false else
      let s := shift.toNat
      let rem := n % (2 ^ s)
      let half := 2 ^ (s - 1)
      if rem > half then true
      else if rem < half then false
      else sticky || (m0 % 2 == 1)
  let m1 := if up then m0 + 1 else m0
  let (m, et) := if m1 == 2^53 then (2^52, et + 1) else (m1, et)
  if m < 2^52 then some (UInt64.ofNat m)
  else
    let biased := et + 1075
    if biased ≥ 0x7ff then none
    else some (UInt64.ofNat (biased.toNat * 2^52 + (m - 2^52)))

/-- `float64(uint64 n)` -/
def ofNat (n : Nat) : UInt64 := (roundPos n 0 false).getD 0
/-- `float64(int64 i)` -/
def ofInt (i : Int) : UInt64 :=
  if i < 0 then signBit true ||| ofNat i.natAbs else ofNat i.toNat

def numDigits (n : Nat) : Nat := (Nat.toDigits 10 n).length

/-- Correctly rounded binary64 of `(-1)^neg · m · 10^e`; `none` = the result is infinite
    (`strconv.ParseFloat` reports `ErrRange`). Underflow gives (signed) zero, as `strconv` does. -/
def roundDecimal (neg : Bool) (m : Nat) (e : Int) : Option UInt64 :=
  if m == 0 then some (signBit neg) else
  let d : Int := numDigits m
  if e + d > 310 then none
  else if e + d < -330 then some (signBit neg)
  else
    let r :=
      if e ≥ 0 then roundPos (m * 10 ^ e.toNat) 0 false
      else
        let den := 10 ^ e.natAbs
        let k : Nat := (den.log2 + 70)
        let num := m <<< k
        roundPos (num / den) (-(k : Int)) (num % den != 0)
    r.map (fun b => signBit neg ||| b)

/-- Exact comparison of a finite value with an integer: `cmpInt v k = compare (value v) k`. -/
def cmpFinInt (neg : Bool) (m : Nat) (e : Int) (k : Int) : Ordering :=
  let sm : Int := if neg then -(m : Int) else m
  if e ≥ 0 then compare (sm * 2 ^ e.toNat) k
  else compare sm (k * 2 ^ e.natAbs)

/-- `v > k` as IEEE comparison with the exactly representable integer `k` (false for NaN). -/
def gtInt (b : UInt64) (k : Int) : Bool :=
  match decode b with
  | .nan => false
  | .inf neg => !neg
  | .fin neg m e => cmpFinInt neg m e k == .gt
def geInt (b : UInt64) (k : Int) : Bool :=
  match decode b with
  | .nan => false
  | .inf neg => !neg
  | .fin neg m e => cmpFinInt neg m e k != .lt
def ltInt (b : UInt64) (k : Int) : Bool :=
  match decode b with
  | .nan => false
  | .inf neg => neg
  | .fin neg m e => cmpFinInt neg m e k == .lt

/-- Truncation toward zero of a finite value. -/
def truncFin (neg : Bool) (m : Nat) (e : Int) : Int :=
  let a : Nat := if e ≥ 0 then m <<< e.toNat else m >>> e.natAbs
  if neg then -(a : Int) else a

def trunc? (b : UInt64) : Option Int :=
  match decode b with
  | .fin neg m e => some (truncFin neg m e)
  | _ => none

end SJ.F64
