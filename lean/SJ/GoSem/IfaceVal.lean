import SJ.Model.Object
set_option linter.unusedVariables false
/-
`interface{}` values of the translated Go source are carried as the model's `IVal` (a plain data type: null, bool,
int64, uint64, float64 bits, string bytes, `[]interface{}` as a list, `map[string]interface{}` as an association
list in order of first insertion).  `GoSem.Val` derives `DecidableEq` and `Repr`, so both are provided here.
-/
namespace SJ

mutual
def IVal.beq : IVal → IVal → Bool
  | .null, .null => true
  | .bool a, .bool b => a == b
  | .int a, .int b => a == b
  | .uint a, .uint b => a == b
  | .float a, .float b => a == b
  | .str a, .str b => a == b
  | .arr a, .arr b => IVal.beqL a b
  | .obj a, .obj b => IVal.beqM a b
  | _, _ => false
def IVal.beqL : List IVal → List IVal → Bool
  | [], [] => true
  | x :: xs, y :: ys => IVal.beq x y && IVal.beqL xs ys
  | _, _ => false
def IVal.beqM : List (Bytes × IVal) → List (Bytes × IVal) → Bool
  | [], [] => true
  | (k, x) :: xs, (k', y) :: ys => k == k' && IVal.beq x y && IVal.beqM xs ys
  | _, _ => false
end

mutual
theorem IVal.beq_eq : ∀ a b : IVal, IVal.beq a b = true → a = b
  | .null, b => by cases b <;> simp [IVal.beq]
  | .bool a, b => by cases b <;> simp [IVal.beq]
  | .int a, b => by cases b <;> simp [IVal.beq]
  | .uint a, b => by cases b <;> simp [IVal.beq]
  | .float a, b => by cases b <;> simp [IVal.beq]
  | .str a, b => by cases b <;> simp [IVal.beq]
  | .arr a, b => by
    cases b <;> simp [IVal.beq]
    exact IVal.beqL_eq a _
  | .obj a, b => by
    cases b <;> simp [IVal.beq]
    exact IVal.beqM_eq a _
theorem IVal.beqL_eq : ∀ a b : List IVal, IVal.beqL a b = true → a = b
  | [], b => by cases b <;> simp [IVal.beqL]
  | x :: xs, b => by
    cases b with
    | nil => simp [IVal.beqL]
    | cons y ys =>
      simp only [IVal.beqL, Bool.and_eq_true]
      intro h
      rw [IVal.beq_eq x y h.1, IVal.beqL_eq xs ys h.2]
theorem IVal.beqM_eq : ∀ a b : List (Bytes × IVal), IVal.beqM a b = true → a = b
  | [], b => by cases b <;> simp [IVal.beqM]
  | (k, x) :: xs, b => by
    cases b with
    | nil => simp [IVal.beqM]
    | cons y ys =>
      obtain ⟨k', y⟩ := y
      simp only [IVal.beqM, Bool.and_eq_true, beq_iff_eq]
      intro h
      rw [h.1.1, IVal.beq_eq x y h.1.2, IVal.beqM_eq xs ys h.2]
end

mutual
theorem IVal.beq_refl : ∀ a : IVal, IVal.beq a a = true
  | .null => by simp [IVal.beq]
  | .bool a => by simp [IVal.beq]
  | .int a => by simp [IVal.beq]
  | .uint a => by simp [IVal.beq]
  | .float a => by simp [IVal.beq]
  | .str a => by simp [IVal.beq]
  | .arr a => by simp [IVal.beq]; exact IVal.beqL_refl a
  | .obj a => by simp [IVal.beq]; exact IVal.beqM_refl a
theorem IVal.beqL_refl : ∀ a : List IVal, IVal.beqL a a = true
  | [] => by simp [IVal.beqL]
  | x :: xs => by simp [IVal.beqL, IVal.beq_refl x, IVal.beqL_refl xs]
theorem IVal.beqM_refl : ∀ a : List (Bytes × IVal), IVal.beqM a a = true
  | [] => by simp [IVal.beqM]
  | (k, x) :: xs => by simp [IVal.beqM, IVal.beq_refl x, IVal.beqM_refl xs]
end

instance : DecidableEq IVal := fun a b =>
  if h : IVal.beq a b = true then isTrue (IVal.beq_eq a b h)
  else isFalse (fun e => h (e ▸ IVal.beq_refl a))

instance : Repr IVal := ⟨fun _ _ => "<interface value>"⟩

end SJ
