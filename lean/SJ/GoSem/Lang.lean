import SJ.Basic
import SJ.Generated.GoTables
import SJ.Model.Access
import SJ.Model.Number
import SJ.Model.Marshal
import SJ.Model.StringDec
import SJ.GoSem.IfaceVal
import SJ.Model.Serialize   -- framing: `readUvarint`
set_option linter.unusedVariables false
/-
GoSem — a small imperative language with a big-step interpreter, the target of the Go→Lean translator
(`tools/extract`, `genGoSrc`).  The translator is a *printer*: it walks the go/ast of the selected functions of
/repo and prints one constructor per syntax node (`Generated/GoSrc.lean`); every decision about what a statement
*means* is made here, in Lean, where it can be read and where the theorems see it.  `Proofs/GoIter*.lean` prove
that the hand-written model functions (`Model.Iter` …) are exactly the meaning of the regenerated syntax trees.

Subset of Go covered (the translator aborts on anything else): assignments to locals and to fields of the pointer
receiver(s), `+=`/`-=`/`++`/`--`, `if`/`else`, expression `switch` with value lists, `for { }`, `for cond { }`, `for init; cond; post { }` and
`for _, v := range <byte slice>`, `var x T`, `break`/`continue` (innermost loop), `return` with values, method calls on a receiver of the same struct type
(run on the callee's syntax tree, fields copied in and out — pointer-receiver aliasing of distinct objects),
`len(x.tape.Tape)`, indexing and index assignment of the tape slice (bounds-checked against the *slice* length: a
failed check is `panic`), table look-ups, integer and bitwise operators, comparisons, lazy `&&`/`||`,
conversions between `int`, `uint64`, `Tag`/`Type`/`byte`; byte slices as values: `len`, `a[lo:hi]` (bounds-checked),
`binary.LittleEndian.Uint64`; a block of a larger function may be translated on its own, its free variables
(`s.tagsBuf`, `dst.Tape`) becoming inputs.

Modelling decisions (trusted, stated here once):
* Go `int` is 64-bit two's complement; here it is an unbounded `Int`.  Every `int` of the translated functions is
  a tape offset or a 56-bit payload or a sum of two of those, far from 2^63.
* `uint64` arithmetic wraps (`UInt64`).  `int(u)` is the two's-complement reinterpretation (`toInt64`).
* A `for` loop runs with a fuel argument; running out of fuel is the distinguished outcome `diverge`.
-/
namespace SJ.GoSem
open SJ

inductive Ty where
  | int | u64 | u8 | bool
  deriving DecidableEq, Repr

inductive Val where
  | int (i : Int)
  | u64 (w : UInt64)
  | u8 (b : UInt8)
  | bool (b : Bool)
  | bytes (b : Bytes)                       -- a `[]byte` value (the slice's visible content; aliasing is not modelled)
  | keys (ks : List Bytes)                  -- a `map[string]struct{}` used as a set of keys
  | bools (l : List Bool)                   -- the answers a callback will give, in call order (see `Stmt.cb`)
  | ints (l : List Int)                     -- the log of what callbacks were given; also a `[]int64`
  | u64s (l : List UInt64)                  -- a `[]uint64`, or a `[]float64` as bit patterns
  | iface (v : IVal)                        -- an `interface{}` as `Interface()` builds them; also a `[]interface{}`
                                            -- (`.arr`) and a `map[string]interface{}` (`.obj`); nil and empty conflated
  deriving DecidableEq, Repr, Inhabited

/-- the dynamic type a scalar is boxed with when it becomes an `interface{}` -/
inductive IKind where
  | uint | int | float | str | bool
  deriving DecidableEq, Repr

inductive BinOp where
  | add | sub | and | or | shr | shl | eq | ne | lt | le | gt | ge | xor | div | mul
  deriving DecidableEq, Repr

inductive Expr where
  | v (name : String)                       -- local variable or flattened field (`i.off`)
  | int (n : Int)                           -- untyped integer constant in `int` context
  | u64 (n : Nat)
  | u8 (n : Nat)                            -- Tag / Type constant (evaluated by the translator, name kept in a comment)
  | bool (b : Bool)
  | bin (op : BinOp) (a b : Expr)
  | land (a b : Expr)                       -- `&&` (lazy)
  | lor (a b : Expr)                        -- `||` (lazy)
  | not (a : Expr)
  | conv (ty : Ty) (a : Expr)
  | lenTape (base : String)                 -- `len(base.tape.Tape)`
  | tapeAt (base : String) (idx : Expr)     -- `base.tape.Tape[idx]`
  | tbl (name : String) (idx : Expr)        -- `TagToType[idx]`
  | lenB (a : Expr)                         -- `len(a)` of a byte slice
  | sliceB (a lo hi : Expr)                 -- `a[lo:hi]` of a byte slice (a missing bound is printed as 0 / `len(a)`)
  | le64 (a : Expr)                         -- `binary.LittleEndian.Uint64(a)`
  | appendB (a b : Expr)                    -- `append(a, b...)` of byte slices (the new content of the slice)
  | idxB (a i : Expr)                       -- `a[i]` of a byte slice
  | nilB                                    -- `nil` as a byte slice
  | litB (bs : List Nat)                    -- `[]byte("…")`: the bytes of a string literal
  | zerosB (n : Nat)                        -- a zeroed `[n]uint8` array, as a slice
  | zerosBn (n : Expr)                      -- `make([]byte, n, …)`: `n` zero bytes
  | copyB (dst src : Expr)                  -- the content of `dst` after `copy(dst, src)`
  | nilI                                    -- an empty `[]int64`
  | nilU                                    -- an empty `[]uint64` / `[]float64`
  | pushI (a e : Expr)                      -- `append(a, e)` for one int64
  | pushU (a e : Expr)                      -- `append(a, e)` for one uint64 / float64 (bits)
  | pushB (a e : Expr)                      -- `append(a, e)` for one byte `e`
  | le32 (a : Expr)                         -- `binary.LittleEndian.Uint32(a)` (a uint32 is carried as a `u64` below 2^32)
  | lenK (a : Expr)                         -- `len(m)` of a key set
  | inK (m k : Expr)                        -- `_, ok := m[string(k)]`
  | eqB (a b : Expr)                        -- equality of two byte strings (`string(a) == b`)
  | fcmpF (op : BinOp) (a : Expr) (bits : Nat)   -- `a <op> C` for a float64 `a` and a float constant `C` given by its bits
  | fIsInf (a : Expr)                       -- `math.IsInf(a, 0)`
  | fIsNaN (a : Expr)                       -- `math.IsNaN(a)`
  | fabs (a : Expr)                         -- `math.Abs(a)`
  | fcmpK (op : BinOp) (a : Expr) (k : Int) -- `a <op> K`, `a` a float64 (carried as its bits), `K` an untyped integer constant
  | f2i (a : Expr)                          -- `int64(a)`, `a` a float64
  | f2u (a : Expr)                          -- `uint64(a)`, `a` a float64
  | i2f (a : Expr)                          -- `float64(a)`, `a` an int64
  | u2f (a : Expr)                          -- `float64(a)`, `a` a uint64
  | leBytes (a : Expr)                      -- the 8 bytes `binary.LittleEndian.PutUint64(tmp[:], a)` leaves in `tmp`
  | idxU (a i : Expr)                       -- `a[i]` of a `[]uint64` / `[N]uint32` (a uint32 is carried as a `u64` below 2^32)
  | idxK (m i : Expr)                       -- `path[i]` of a `...string` (a list of byte strings, carried as `Val.keys`)
  | dropK (m n : Expr)                      -- `path[n:]` of a `...string`
  | idxI (a i : Expr)                       -- `a[i]` of a `[]int64` (here: the flattened iterators of an `Elements` slice)
  | nilK                                    -- an empty `[]string`
  | pushK (a e : Expr)                      -- `append(a, e)` for one string `e` (its bytes)
  | nilV                                    -- `nil` as an `interface{}`
  | nilA                                    -- an empty `[]interface{}` (`var dst []interface{}`, `make([]interface{}, 0, n)`)
  | nilM                                    -- an empty `map[string]interface{}` (`make(map[string]interface{})`)
  | box (k : IKind) (a : Expr)              -- a uint64 / int64 / float64 / string / bool converted to `interface{}`
  | pushA (a e : Expr)                      -- `append(a, e)` for a `[]interface{}` and one `interface{}`
  -- --- framing: begin (Expr)
  | capTape (base : String)                 -- `cap(base.Tape)`: the size of the backing array (`St.tape`)
  | capB (a : Expr)                         -- `cap(a)` of a byte slice, for a variable that holds its backing array up to the
                                            -- capacity (convention of the framing block of `Deserialize` for the four
                                            -- destination buffers on entry; the re-slice `a = a[:n]` then checks `n` against it)
  -- --- framing: end (Expr)
  deriving Repr, Inhabited

inductive Stmt where
  | assign (name : String) (e : Expr)
  | tapeSet (base : String) (idx e : Expr)          -- `base.tape.Tape[idx] = e`
  | setB (name : String) (idx e : Expr)             -- `name[idx] = e` for a byte slice variable
  | tapeAppend (base : String) (es : List Expr)     -- `base.Tape = append(base.Tape, es…)`: only for a view that is the
                                                    -- whole tape (`lim = len`), as during parsing
  | setLen (base : String) (e : Expr)               -- `base.tape.Tape = base.tape.Tape[:e]` (Go checks `e` against the
                                                    -- capacity; only the length is modelled, so this is stricter)
  | copyStruct (dst src : String)                   -- `*dst = *src`
  | ite (c : Expr) (t e : List Stmt)
  | switch (e : Expr) (cases : List (List Expr × List Stmt)) (dflt : List Stmt)
  | switchL (label : String) (e : Expr) (cases : List (List Expr × List Stmt)) (dflt : List Stmt)
      -- a labelled `switch`: `break <label>` inside it (also from a nested switch) continues after it
  | brkL (label : String)                           -- `break <label>` for the label of an enclosing `switch`
  | loop (body : List Stmt)                         -- `for { body }`
  | while (c : Expr) (body : List Stmt)             -- `for c { body }`
  | forc (init : List Stmt) (c : Expr) (post body : List Stmt)   -- `for init; c; post { body }`
  | rangeB (v : String) (e : Expr) (body : List Stmt)            -- `for _, v := range e { body }`, `e` a byte slice
  | brk
  | cont
  | ret (es : List Expr)
  | call (recv fn : String) (args : List Expr)      -- `recv.fn(args)`, result discarded
  | callAssign (targets : List String) (recv fn : String) (ptrs : List String) (args : List Expr)
      -- `t1, t2 = recv.fn(ptrs…, args…)` (`_` ignores a result); `ptrs` are the pointer-to-struct arguments, by name
  | retCall (recv fn : String) (ptrs : List String) (args : List Expr)   -- `return recv.fn(ptrs…, args…)`
  | rangeIB (iv v : String) (e : Expr) (body : List Stmt)   -- `for iv, v := range e { body }`, `e` a byte slice
  | extAssign (targets : List String) (name : String) (args : List Expr)   -- results of a modelled library function
  | cb (target fn : String) (logs : List Expr)
      -- `target = fn(...)` for a function-valued parameter `fn`: the answer is the next element of the variable
      -- `fn.results` (a `Val.bools`; not consumed when `target` is `_`), and the integers `logs` evaluate to are
      -- appended to the variable `fn.log` — what the callback was given
  | panicS                                          -- `panic(…)`
  | setU (name : String) (idx e : Expr)             -- `name[idx] = e` for a `[]uint64` / `[N]uint32` variable
  | setLenFrom (dst src : String) (e : Expr)
      -- `dst.tape.Tape = src.tape.Tape[:e]` for two views of one tape (Go checks `e` against the capacity of `src`'s
      -- slice; only the length is modelled, so this is stricter)
  | mapSet (name : String) (k v : Expr)
      -- `m[k] = v` for a `map[string]int` carried as two parallel lists `name.k` (keys in order of first insertion) and
      -- `name.v`: an existing key's value is replaced, a new key is appended
  | oracle (target name : String)
      -- `target = name(…)` for a function known only by contract to return *some* uint64 (`runtime.memhash`, seeded
      -- per process): the answer is the next element of the variable `name.answers` (a `Val.u64s`)
  | mapSetV (name : String) (k v : Expr)
      -- `m[k] = v` for a `map[string]interface{}` variable: an existing key's entry is removed, the new entry comes last
      -- (`SJ.mapInsert`; a Go map has no order, the list is compared up to order by whoever reads it)
  -- --- framing: begin (Stmt)
  | tapeMake (base : String) (e : Expr)
      -- `base.Tape = make([]uint64, e)`: a fresh zeroed backing array of `e` elements, length `e`.  Go panics
      -- (`makeslice: len out of range`) when the byte size exceeds the platform's limit, at the latest when `e` does not fit
      -- an `int`; only the latter is modelled (exhausting the memory is not a panic and not modelled)
  | setLenCap (base : String) (e : Expr)
      -- `base.Tape = base.Tape[:e]`, checked against the *capacity* (the size of the backing array `St.tape`)
  | spawn (tag : String) (captured : List (String × Expr))
      -- `go func() { … }()` for a goroutine known by contract only: it is NOT run here.  What it was given is recorded: the
      -- values of `captured` at the `go` statement in the variables `tag.<name>`, and `tag.started = true`.  Whoever joins
      -- it (`wg.Wait()`) applies the contract to these (Proofs/GoFraming: `resolve`)
  -- --- framing: end (Stmt)
  deriving Repr, Inhabited

structure FunDef where
  recv   : String            -- name of the pointer receiver
  params : List String
  body   : List Stmt
  fields : List String := ["off", "addNext", "cur", "t", "lim"]   -- the receiver's fields (flattened); default: an `Iter`
  ptrParams : List (String × List String) := []   -- pointer-to-struct parameters with their fields (aliased with the caller's)
  deriving Repr, Inhabited

/-- variable store: association list, last write first -/
abbrev Env := List (String × Val)

def Env.get (e : Env) (k : String) : Option Val :=
  match e with
  | [] => none
  | (k', v) :: r => if k' == k then some v else Env.get r k

def Env.set (e : Env) (k : String) (v : Val) : Env :=
  match e with
  | [] => [(k, v)]
  | (k', v') :: r => if k' == k then (k, v) :: r else (k', v') :: Env.set r k v

/-- the fields of an `Iter` as flattened variables; `lim` is `len(x.tape.Tape)` -/
def iterFields : List String := ["off", "addNext", "cur", "t", "lim"]

structure St where
  env  : Env
  tape : Array UInt64
  deriving Repr, Inhabited

/-- outcome of running statements -/
inductive Out where
  | normal (s : St)
  | brk (s : St)
  | cont (s : St)
  | ret (s : St) (vs : List Val)
  | panic
  | diverge
  | stuck (why : String)        -- ill-typed or unknown construct: the translation is outside the subset
  deriving Repr, Inhabited

def tblLookup (name : String) (i : Nat) : Option Val :=
  if name == "shouldEscape" then some (.bool (SJ.Generated.tShouldEscape.getD i 0 != 0))
  else if name == "valToHex" then some (.u8 (SJ.Generated.tValToHex.getD i 0).toUInt8)
  else if name == "isNumberRune" then some (.u8 (SJ.Generated.tIsNumberRune.getD i 0).toUInt8)
  else if name == "structuralOrWhitespaceNegated" then some (.u8 (SJ.Generated.tStructuralOrWhitespaceNegated.getD i 0).toUInt8)
  else if name == "TagToType" then some (.u8 (SJ.Generated.tTagToType.getD i 0).toUInt8)
  else if name == "tagOpenToClose" then some (.u8 (SJ.Generated.tTagOpenToClose.getD i 0).toUInt8)
  else none

def binop (op : BinOp) (a b : Val) : Option Val :=
  match op, a, b with
  | .add, .int x, .int y => some (.int (x + y))
  | .sub, .int x, .int y => some (.int (x - y))
  | .mul, .int x, .int y => some (.int (x * y))
  | .and, .int x, .int y => if 0 ≤ x ∧ 0 ≤ y then some (.int ((x.toNat &&& y.toNat : Nat) : Int)) else none   -- non-negative operands only
  | .mul, .u64 x, .u64 y => some (.u64 (x * y))
  | .div, .int x, .int y => if y = 0 then none else some (.int (Int.tdiv x y))   -- Go's `/` truncates toward zero
  | .add, .u64 x, .u64 y => some (.u64 (x + y))
  | .sub, .u64 x, .u64 y => some (.u64 (x - y))
  | .and, .u64 x, .u64 y => some (.u64 (x &&& y))
  | .or,  .u64 x, .u64 y => some (.u64 (x ||| y))
  | .xor, .u64 x, .u64 y => some (.u64 (x ^^^ y))
  | .shr, .u64 x, .int y => if 0 ≤ y ∧ y < 64 then some (.u64 (x >>> UInt64.ofNat y.toNat)) else none
  | .shl, .u64 x, .int y => if 0 ≤ y ∧ y < 64 then some (.u64 (x <<< UInt64.ofNat y.toNat)) else none
  | .eq, .int x, .int y => some (.bool (x == y))
  | .ne, .int x, .int y => some (.bool (x != y))
  | .lt, .int x, .int y => some (.bool (x < y))
  | .le, .int x, .int y => some (.bool (x ≤ y))
  | .gt, .int x, .int y => some (.bool (x > y))
  | .ge, .int x, .int y => some (.bool (x ≥ y))
  | .eq, .u64 x, .u64 y => some (.bool (x == y))
  | .ne, .u64 x, .u64 y => some (.bool (x != y))
  | .lt, .u64 x, .u64 y => some (.bool (x < y))
  | .le, .u64 x, .u64 y => some (.bool (x ≤ y))
  | .gt, .u64 x, .u64 y => some (.bool (x > y))
  | .ge, .u64 x, .u64 y => some (.bool (x ≥ y))
  | .eq, .u8 x, .u8 y => some (.bool (x == y))
  | .ne, .u8 x, .u8 y => some (.bool (x != y))
  | .shr, .u8 x, .int y => if 0 ≤ y ∧ y < 8 then some (.u8 (x >>> UInt8.ofNat y.toNat)) else none
  | .and, .u8 x, .u8 y => some (.u8 (x &&& y))
  | .or,  .u8 x, .u8 y => some (.u8 (x ||| y))
  | .lt, .u8 x, .u8 y => some (.bool (x < y))
  | .le, .u8 x, .u8 y => some (.bool (x ≤ y))
  | .gt, .u8 x, .u8 y => some (.bool (x > y))
  | .ge, .u8 x, .u8 y => some (.bool (x ≥ y))
  | .eq, .bool x, .bool y => some (.bool (x == y))
  | .ne, .bool x, .bool y => some (.bool (x != y))
  | _, _, _ => none

def convert (ty : Ty) (a : Val) : Option Val :=
  match ty, a with
  | .int, .int x => some (.int x)
  | .int, .u64 x => some (.int (toInt64 x))
  | .int, .u8 x => some (.int x.toNat)
  | .u64, .u64 x => some (.u64 x)
  | .u64, .int x => some (.u64 (UInt64.ofInt x))
  | .u64, .u8 x => some (.u64 x.toUInt64)
  | .u8, .u8 x => some (.u8 x)
  | .u8, .u64 x => some (.u8 x.toUInt8)
  | .u8, .int x => some (.u8 (UInt8.ofInt x))
  | .bool, .bool b => some (.bool b)
  | _, _ => none

/-- `binary.LittleEndian.Uint64` of the first eight bytes -/
def leU64 (b : Bytes) : UInt64 :=
  (List.range 8).foldl (fun acc k => acc ||| ((b.getD k 0).toUInt64 <<< (UInt64.ofNat (8 * k)))) 0

/-- `binary.LittleEndian.Uint32` of the first four bytes -/
def leU32 (b : Bytes) : UInt64 :=
  (List.range 4).foldl (fun acc k => acc ||| ((b.getD k 0).toUInt64 <<< (UInt64.ofNat (8 * k)))) 0

/-- `binary.PutUvarint`: seven bits per byte, least significant first, the top bit set on all but the last -/
def uvarintBytes (x : Nat) : List UInt8 :=
  if h : x < 128 then [UInt8.ofNat x] else UInt8.ofNat (x % 128 + 128) :: uvarintBytes (x / 128)

/-- the `strconv` functions `parseNumber` calls, as modelled in `Model/Number.lean` (ParseInt and ParseUint exactly,
    ParseFloat by contract: correctly rounded, an error iff the syntax is wrong or the result is infinite).
    Results: value, `err != nil`, `errors.Is(err, strconv.ErrRange)`. -/
def extCall (name : String) (args : List Val) : Option (List Val) :=
  match args with
  | [.bytes b] =>
    if name == "ParseInt" then
      match parseInt64 b.toList with
      | .ok z => some [.int z, .bool false, .bool false]
      | .error .syntax => some [.int 0, .bool true, .bool false]
      | .error .range => some [.int 0, .bool true, .bool true]
    else if name == "ParseUint" then
      match parseUint64 b.toList with
      | .ok n => some [.u64 (UInt64.ofNat n), .bool false, .bool false]
      | .error .syntax => some [.u64 0, .bool true, .bool false]
      | .error .range => some [.u64 0, .bool true, .bool true]
    else if name == "ParseFloat" then
      match parseFloat64 b.toList with
      | some bits => some [.u64 bits, .bool false, .bool false]
      | none => some [.u64 0, .bool true, .bool false]
    else none
  | [.bytes dst, .bytes src] =>
    if name == "escapeBytes" then some [.bytes (escapeBytes dst src)]
    else if name == "parseStringCopy" then
      -- `parseStringSimd(buf, &strs)`: `buf[0]` is the opening quote; the decoded bytes are appended (contract of the
      -- assembly routine `_parse_string`: the scalar decoder; windowing: Proofs/StringWin)
      match decodeString dst 1 dst.size with
      | some (dec, _) => some [.bool true, .bytes (src ++ dec)]
      | none => some [.bool false, .bytes src]
    else none
  | [.bytes buf, .u64 maxSize, .bool needCopy] =>
    if name == "parseStringValidate" then
      -- `parseStringSimdValidateOnly(buf, &maxStringSize, &size, &needCopy)`: ok, decoded length, needCopy'
      match decodeString buf 1 maxSize.toNat with
      | some (dec, close) => some [.bool true, .u64 (UInt64.ofNat dec.size), .bool (needCopy || (close - 1 != dec.size))]
      | none => some [.bool false, .u64 0, .bool needCopy]
    else none
  | [.bytes dst, .int v] =>
    if name == "AppendInt" then some [.bytes (dst ++ intToAscii v)] else none       -- strconv.AppendInt(dst, v, 10)
  | [.u64 mant, .int e2] =>
    if name == "ryuFtoaShortest" then
      -- contract of the vendored Ryu (`FloatFmt.shortestFrom`): the shortest digits in the rounding interval of
      -- mant·2^e2, closest to it, ties to even; ASCII digits, their count, the decimal point position
      if mant == 0 then some [.bytes #[], .int 0, .int 0]
      else
        let sh := FloatFmt.shortestFrom mant.toNat e2 (mant == 4503599627370496 && e2 > -1074)
        some [.bytes (sh.digits.map FloatFmt.digitChar).toArray, .int sh.digits.length, .int sh.dp]
    else none
  | [.bytes dst, .u64 v] =>
    if name == "AppendFloatE" then      -- strconv.AppendFloat(dst, f, 'e', -1, 64) for a finite f
      some [.bytes (dst ++ FloatFmt.fmtE ((v >>> 63) != 0) (FloatFmt.shortest (v &&& 0x7fffffffffffffff)))]
    else if name == "AppendUint" then some [.bytes (dst ++ FloatFmt.natToAscii v.toNat)]   -- strconv.AppendUint(dst, v, 10)
    else if name == "appendFloat" then                                                -- the float64 is carried as its bits
      match FloatFmt.appendFloat v with
      | some b => some [.bytes (dst ++ b), .bool false, .bool false]
      | none => some [.bytes #[], .bool true, .bool false]
    else if name == "PutUvarint" then
      -- `n := binary.PutUvarint(buf, v)`: the encoding at the front of `buf`, its length, and whether it fits (the library
      -- writes byte by byte: an encoding longer than `buf` is an index out of range, raised by the translated code)
      let enc := uvarintBytes v.toNat
      if enc.length ≤ dst.size then some [.bytes (enc.toArray ++ dst.extract enc.length dst.size), .int enc.length, .bool true]
      else some [.bytes dst, .int 0, .bool false]
    else none
  -- --- framing: begin (extCall)
  | [.int pos, .bytes buf] =>
    -- a `*bytes.Buffer` is its two fields `buf`, `off` (the read position)
    if name == "ReadUvarint" then
      -- `x, err := binary.ReadUvarint(br)`: value, `err != nil`, new `br.off`.  Contract = `SJ.readUvarint`; on an error the
      -- position is the end of the buffer or behind the tenth byte (nothing reads the buffer after an error)
      if pos < 0 then none else
      match readUvarint buf pos.toNat with
      | some (x, p) => some [.u64 x, .bool false, .int p]
      | none => some [.u64 0, .bool true, .int (min buf.size (pos.toNat + 10))]
    else if name == "ReadByte" then
      -- `c, err := br.ReadByte()`: io.EOF at the end
      if pos < 0 then none
      else if pos.toNat < buf.size then some [.u8 (buf.getD pos.toNat 0), .bool false, .int (pos + 1)]
      else some [.u8 0, .bool true, .int pos]
    else none
  | [.int pos, .bytes buf, .int n] =>
    if name == "BufNext" then
      -- `data := br.Next(n)`: the next `min n br.Len()` bytes; a negative `n` is a slice-bounds panic inside the library
      -- (not in the subset: the translated code never asks)
      if pos < 0 ∨ n < 0 ∨ buf.size < pos.toNat then none
      else
        let m := min n.toNat (buf.size - pos.toNat)
        some [.bytes (buf.extract pos.toNat (pos.toNat + m)), .int (pos + m)]
    else none
  -- --- framing: end (extCall)
  | _ => none

/-- the value of `float64(K)` for an untyped integer constant `K` (Go converts the constant to the operand's type:
    `math.MaxInt64` becomes 2^63); every such value is an integer -/
def constAsFloat (k : Int) : Int :=
  match F64.trunc? (F64.ofInt k) with
  | some z => z
  | none => k

/-- IEEE comparison of two float64 values given by their bits: false when either is NaN; otherwise the order of
    sign-and-magnitude integers (so −0 = +0) -/
def fcmpBits (op : BinOp) (a b : UInt64) : Option Bool :=
  let nan (x : UInt64) : Bool := (x &&& 0x7fffffffffffffff) > 0x7ff0000000000000
  let key (x : UInt64) : Int :=
    let m : Int := ((x &&& 0x7fffffffffffffff).toNat : Int)
    if (x >>> 63) != 0 then -m else m
  if nan a || nan b then (match op with | .ne => some true | .eq | .lt | .le | .gt | .ge => some false | _ => none)
  else match op with
    | .eq => some (key a == key b)
    | .ne => some (key a != key b)
    | .lt => some (key a < key b)
    | .le => some (key a ≤ key b)
    | .gt => some (key a > key b)
    | .ge => some (key a ≥ key b)
    | _ => none

/-- IEEE comparison of a float64 (bits) with an integer-valued float; false for NaN -/
def fcmp (op : BinOp) (b : UInt64) (k : Int) : Option Bool :=
  match op with
  | .ge => some (F64.geInt b k)
  | .gt => some (F64.gtInt b k)
  | .lt => some (F64.ltInt b k)
  | _ => none

/-- a scalar as an `interface{}` of the given dynamic type -/
def boxVal : IKind → Val → Option IVal
  | .uint, .u64 w => some (.uint w.toNat)
  | .int, .int z => some (.int z)
  | .float, .u64 w => some (.float w)
  | .str, .bytes b => some (.str b)
  | .bool, .bool b => some (.bool b)
  | _, _ => none

/-- result of evaluating an expression: a value, a run-time panic, or an ill-typed tree -/
inductive EOut where
  | val (v : Val)
  | panic
  | stuck (why : String)
  deriving Repr, Inhabited

def evalE (s : St) : Expr → EOut
  | .v n => match s.env.get n with | some v => .val v | none => .stuck ("unbound " ++ n)
  | .int n => .val (.int n)
  | .u64 n => .val (.u64 (UInt64.ofNat n))
  | .u8 n => .val (.u8 (UInt8.ofNat n))
  | .bool b => .val (.bool b)
  | .bin op a b =>
    match evalE s a with
    | .val x =>
      match evalE s b with
      | .val y => match binop op x y with | some r => .val r | none => .stuck "binop"
      | o => o
    | o => o
  | .land a b =>
    match evalE s a with
    | .val (.bool false) => .val (.bool false)
    | .val (.bool true) => (match evalE s b with | .val (.bool y) => .val (.bool y) | .val _ => .stuck "land" | o => o)
    | .val _ => .stuck "land"
    | o => o
  | .lor a b =>
    match evalE s a with
    | .val (.bool true) => .val (.bool true)
    | .val (.bool false) => (match evalE s b with | .val (.bool y) => .val (.bool y) | .val _ => .stuck "lor" | o => o)
    | .val _ => .stuck "lor"
    | o => o
  | .not a =>
    match evalE s a with
    | .val (.bool x) => .val (.bool (!x))
    | .val _ => .stuck "not"
    | o => o
  | .conv ty a =>
    match evalE s a with
    | .val x => (match convert ty x with | some r => .val r | none => .stuck "conv")
    | o => o
  | .lenTape base =>
    match s.env.get (base ++ ".lim") with | some v => .val v | none => .stuck ("unbound lim of " ++ base)
  | .lenB a =>
    match evalE s a with
    | .val (.bytes b) => .val (.int b.size)
    | .val _ => .stuck "len operand"
    | o => o
  | .sliceB a lo hi =>
    match evalE s a with
    | .val (.bytes b) =>
      (match evalE s lo with
       | .val (.int l) =>
         (match evalE s hi with
          | .val (.int h) => if 0 ≤ l ∧ l ≤ h ∧ h ≤ b.size then .val (.bytes (b.extract l.toNat h.toNat)) else .panic
          | .val _ => .stuck "slice bound type"
          | o => o)
       | .val _ => .stuck "slice bound type"
       | o => o)
    | .val _ => .stuck "slice operand"
    | o => o
  | .appendB a b =>
    match evalE s a with
    | .val (.bytes x) =>
      (match evalE s b with
       | .val (.bytes y) => .val (.bytes (x ++ y))
       | .val _ => .stuck "append operand"
       | o => o)
    | .val _ => .stuck "append operand"
    | o => o
  | .nilB => .val (.bytes #[])
  | .litB bs => .val (.bytes (bs.map UInt8.ofNat).toArray)
  | .zerosB n => .val (.bytes (Array.replicate n 0))
  | .zerosBn n =>
    match evalE s n with
    | .val (.int k) => if 0 ≤ k then .val (.bytes (Array.replicate k.toNat 0)) else .panic
    | .val _ => .stuck "make length"
    | o => o
  | .copyB dst src =>
    match evalE s dst with
    | .val (.bytes d) =>
      (match evalE s src with
       | .val (.bytes x) => let n := min d.size x.size; .val (.bytes (x.extract 0 n ++ d.extract n d.size))
       | .val _ => .stuck "copy operand"
       | o => o)
    | .val _ => .stuck "copy operand"
    | o => o
  | .nilI => .val (.ints [])
  | .nilU => .val (.u64s [])
  | .pushI a e =>
    match evalE s a with
    | .val (.ints l) =>
      (match evalE s e with
       | .val (.int y) => .val (.ints (l ++ [y]))
       | .val _ => .stuck "append operand"
       | o => o)
    | .val _ => .stuck "append operand"
    | o => o
  | .pushU a e =>
    match evalE s a with
    | .val (.u64s l) =>
      (match evalE s e with
       | .val (.u64 y) => .val (.u64s (l ++ [y]))
       | .val _ => .stuck "append operand"
       | o => o)
    | .val _ => .stuck "append operand"
    | o => o
  | .pushB a e =>
    match evalE s a with
    | .val (.bytes x) =>
      (match evalE s e with
       | .val (.u8 y) => .val (.bytes (x.push y))
       | .val _ => .stuck "append operand"
       | o => o)
    | .val _ => .stuck "append operand"
    | o => o
  | .le32 a =>
    match evalE s a with
    | .val (.bytes b) => if b.size < 4 then .panic else .val (.u64 (leU32 b))
    | .val _ => .stuck "Uint32 operand"
    | o => o
  | .lenK a =>
    match evalE s a with
    | .val (.keys ks) => .val (.int ks.length)
    | .val _ => .stuck "len operand"
    | o => o
  | .inK m k =>
    match evalE s m with
    | .val (.keys ks) =>
      (match evalE s k with
       | .val (.bytes b) => .val (.bool (ks.contains b))
       | .val _ => .stuck "key type"
       | o => o)
    | .val _ => .stuck "map operand"
    | o => o
  | .eqB a b =>
    match evalE s a with
    | .val (.bytes x) =>
      (match evalE s b with
       | .val (.bytes y) => .val (.bool (x == y))
       | .val _ => .stuck "string operand"
       | o => o)
    | .val _ => .stuck "string operand"
    | o => o
  | .fcmpF op a bits =>
    match evalE s a with
    | .val (.u64 b) => (match fcmpBits op b (UInt64.ofNat bits) with | some r => .val (.bool r) | none => .stuck "float comparison")
    | .val _ => .stuck "float operand"
    | o => o
  | .fIsInf a =>
    match evalE s a with
    | .val (.u64 b) => .val (.bool ((b &&& 0x7fffffffffffffff) == 0x7ff0000000000000))
    | .val _ => .stuck "float operand"
    | o => o
  | .fIsNaN a =>
    match evalE s a with
    | .val (.u64 b) => .val (.bool ((b &&& 0x7fffffffffffffff) > 0x7ff0000000000000))
    | .val _ => .stuck "float operand"
    | o => o
  | .fabs a =>
    match evalE s a with
    | .val (.u64 b) => .val (.u64 (b &&& 0x7fffffffffffffff))
    | .val _ => .stuck "float operand"
    | o => o
  | .fcmpK op a k =>
    match evalE s a with
    | .val (.u64 b) => (match fcmp op b (constAsFloat k) with | some r => .val (.bool r) | none => .stuck "float comparison")
    | .val _ => .stuck "float operand"
    | o => o
  | .f2i a =>
    match evalE s a with
    | .val (.u64 b) => .val (.int (Iter.cvtFloatToInt64 b))       -- amd64 CVTTSD2SQ, as modelled in Model/Access
    | .val _ => .stuck "float operand"
    | o => o
  | .f2u a =>
    match evalE s a with
    | .val (.u64 b) => .val (.u64 (UInt64.ofNat (Iter.cvtFloatToUint64 b)))
    | .val _ => .stuck "float operand"
    | o => o
  | .i2f a =>
    match evalE s a with
    | .val (.int x) => .val (.u64 (F64.ofInt x))
    | .val _ => .stuck "int operand"
    | o => o
  | .u2f a =>
    match evalE s a with
    | .val (.u64 x) => .val (.u64 (F64.ofNat x.toNat))
    | .val _ => .stuck "uint operand"
    | o => o
  | .leBytes a =>
    match evalE s a with
    | .val (.u64 w) => .val (.bytes ((List.range 8).map (fun i => (w >>> (UInt64.ofNat (8 * i))).toUInt8)).toArray)
    | .val _ => .stuck "PutUint64 operand"
    | o => o
  | .idxU a i =>
    match evalE s a with
    | .val (.u64s l) =>
      (match evalE s i with
       | .val (.int k) => if 0 ≤ k ∧ k < l.length then .val (.u64 (l.getD k.toNat 0)) else .panic
       | .val (.u64 k) => if k.toNat < l.length then .val (.u64 (l.getD k.toNat 0)) else .panic
       | .val _ => .stuck "index type"
       | o => o)
    | .val _ => .stuck "index operand"
    | o => o
  | .idxI a i =>
    match evalE s a with
    | .val (.ints l) =>
      (match evalE s i with
       | .val (.int k) => if 0 ≤ k ∧ k < l.length then .val (.int (l.getD k.toNat 0)) else .panic
       | .val _ => .stuck "index type"
       | o => o)
    | .val _ => .stuck "index operand"
    | o => o
  | .nilK => .val (.keys [])
  | .pushK a e =>
    match evalE s a with
    | .val (.keys ks) =>
      (match evalE s e with
       | .val (.bytes b) => .val (.keys (ks ++ [b]))
       | .val _ => .stuck "append operand"
       | o => o)
    | .val _ => .stuck "append operand"
    | o => o
  | .idxK m i =>
    match evalE s m with
    | .val (.keys ks) =>
      (match evalE s i with
       | .val (.int k) => if 0 ≤ k ∧ k < ks.length then .val (.bytes (ks.getD k.toNat #[])) else .panic
       | .val _ => .stuck "index type"
       | o => o)
    | .val _ => .stuck "index operand"
    | o => o
  | .dropK m n =>
    match evalE s m with
    | .val (.keys ks) =>
      (match evalE s n with
       | .val (.int k) => if 0 ≤ k ∧ k ≤ ks.length then .val (.keys (ks.drop k.toNat)) else .panic
       | .val _ => .stuck "slice bound type"
       | o => o)
    | .val _ => .stuck "slice operand"
    | o => o
  | .idxB a i =>
    match evalE s a with
    | .val (.bytes b) =>
      (match evalE s i with
       | .val (.int k) => if 0 ≤ k ∧ k < b.size then .val (.u8 (b.getD k.toNat 0)) else .panic
       | .val (.u64 k) => if k.toNat < b.size then .val (.u8 (b.getD k.toNat 0)) else .panic
       | .val _ => .stuck "index type"
       | o => o)
    | .val _ => .stuck "index operand"
    | o => o
  | .le64 a =>
    match evalE s a with
    | .val (.bytes b) => if b.size < 8 then .panic else .val (.u64 (leU64 b))
    | .val _ => .stuck "Uint64 operand"
    | o => o
  | .tapeAt base idx =>
    match evalE s idx with
    | .val (.u64 k) =>
      (match s.env.get (base ++ ".lim") with
       | some (.int lim) =>
         if (k.toNat : Int) < lim then
           match s.tape[k.toNat]? with
           | some w => .val (.u64 w)
           | none => .panic
         else .panic
       | _ => .stuck "lim")
    | .val (.int k) =>
      (match s.env.get (base ++ ".lim") with
       | some (.int lim) =>
         if 0 ≤ k ∧ k < lim then
           match s.tape[k.toNat]? with
           | some w => .val (.u64 w)
           | none => .panic           -- the view is longer than the underlying array: cannot happen for views of one tape
         else .panic
       | _ => .stuck "lim")
    | .val _ => .stuck "index type"
    | o => o
  | .tbl name idx =>
    match evalE s idx with
    | .val (.u8 k) => (match tblLookup name k.toNat with | some r => .val r | none => .stuck ("table " ++ name))
    | .val _ => .stuck "table index type"
    | o => o
  | .nilV => .val (.iface .null)
  | .nilA => .val (.iface (.arr []))
  | .nilM => .val (.iface (.obj []))
  | .box k a =>
    match evalE s a with
    | .val x => (match boxVal k x with | some r => .val (.iface r) | none => .stuck "boxed value type")
    | o => o
  | .pushA a e =>
    match evalE s a with
    | .val (.iface (.arr l)) =>
      (match evalE s e with
       | .val (.iface y) => .val (.iface (.arr (l ++ [y])))
       | .val _ => .stuck "append operand"
       | o => o)
    | .val _ => .stuck "append operand"
    | o => o
  -- --- framing: begin (evalE)
  | .capTape base => .val (.int s.tape.size)
  | .capB a =>
    match evalE s a with
    | .val (.bytes b) => .val (.int b.size)
    | .val _ => .stuck "cap operand"
    | o => o
  -- --- framing: end (evalE)

/-- evaluate a list of expressions left to right -/
def evalEs (s : St) : List Expr → Except EOut (List Val)
  | [] => .ok []
  | e :: r =>
    match evalE s e with
    | .val v => (match evalEs s r with | .ok vs => .ok (v :: vs) | .error o => .error o)
    | o => .error o

def ofE : EOut → Out
  | .val _ => .stuck "value"
  | .panic => .panic
  | .stuck w => .stuck w

/-- copy the receiver's fields into the callee's frame / back into the caller's -/
def copyFields (from_ : Env) (fromPrefix : String) (to : Env) (toPrefix : String) : List String → Option Env
  | [] => some to
  | f :: r =>
    match from_.get (fromPrefix ++ "." ++ f) with
    | some v => copyFields from_ fromPrefix (to.set (toPrefix ++ "." ++ f) v) toPrefix r
    | none => none

def bindParams : List String → List Val → Env → Option Env
  | [], [], e => some e
  | p :: ps, v :: vs, e => bindParams ps vs (e.set p v)
  | _, _, _ => none

/-- variables shared by every function of one call tree: the buffers all iterators of one `ParsedJson` point at -/
def globalVars : List String := ["Strings.B", "Message"]

/-- copy the listed variables that exist in `from_` -/
def copyGlobals (from_ to : Env) : List String → Env
  | [] => to
  | g :: r => match from_.get g with
    | some v => copyGlobals from_ (to.set g v) r
    | none => copyGlobals from_ to r

/-- pointer-to-struct arguments: the callee's parameter `p` aliases the caller's variable `a`; fields copied in … -/
def copyPtrs (caller callee : Env) : List String → List (String × List String) → Option Env
  | [], [] => some callee
  | a :: as, (p, fs) :: ps =>
    match copyFields caller a callee p fs with
    | some e' => copyPtrs caller e' as ps
    | none => none
  | _, _ => none

/-- … and back -/
def copyPtrsBack (callee caller : Env) : List String → List (String × List String) → Option Env
  | [], [] => some caller
  | a :: as, (p, fs) :: ps =>
    match copyFields callee p caller a fs with
    | some e' => copyPtrsBack callee e' as ps
    | none => none
  | _, _ => none

/-- what is logged of a value handed to a callback -/
def valToInt : Val → Int
  | .int x => x
  | .u64 x => x.toNat
  | .u8 x => x.toNat
  | .bool b => if b then 1 else 0
  | .bytes b => b.size
  | _ => 0

def asWords : List Val → Option (List UInt64)
  | [] => some []
  | .u64 w :: r => (asWords r).map (w :: ·)
  | _ => none

/-- bind returned values to the targets (`_` ignores one) -/
def assignTargets : List String → List Val → Env → Option Env
  | [], [], e => some e
  | t :: ts, v :: vs, e => assignTargets ts vs (if t == "_" then e else e.set t v)
  | _, _, _ => none

def isOneOf (v : Val) : List Val → Bool
  | [] => false
  | x :: r => x == v || isOneOf v r

mutual
/-- run a block; `fuel` bounds loop iterations and call depth together -/
def exec (funs : String → Option FunDef) : (fuel : Nat) → List Stmt → St → Out
  | _, [], s => .normal s
  | fuel, st :: rest, s =>
    match exec1 funs fuel st s with
    | .normal s' => exec funs fuel rest s'
    | o => o
termination_by fuel l _ => (fuel, sizeOf l, 0)

def exec1 (funs : String → Option FunDef) : (fuel : Nat) → Stmt → St → Out
  | fuel, .assign n e, s =>
    match evalE s e with
    | .val v => .normal { s with env := s.env.set n v }
    | o => ofE o
  | fuel, .tapeSet base idx e, s =>
    match evalE s idx with
    | .val (.u64 k) =>
      (match evalE s e with
       | .val (.u64 w) =>
         (match s.env.get (base ++ ".lim") with
          | some (.int lim) =>
            if h : (k.toNat : Int) < lim ∧ k.toNat < s.tape.size then .normal { s with tape := s.tape.set k.toNat w h.2 }
            else .panic
          | _ => .stuck "lim")
       | .val _ => .stuck "tape value type"
       | o => ofE o)
    | .val (.int k) =>
      (match evalE s e with
       | .val (.u64 w) =>
         (match s.env.get (base ++ ".lim") with
          | some (.int lim) =>
            if h : 0 ≤ k ∧ k < lim ∧ k.toNat < s.tape.size then .normal { s with tape := s.tape.set k.toNat w h.2.2 }
            else .panic
          | _ => .stuck "lim")
       | .val _ => .stuck "tape value type"
       | o => ofE o)
    | .val _ => .stuck "index type"
    | o => ofE o
  | fuel, .panicS, s => .panic
  | fuel, .setU name idx e, s =>
    match s.env.get name with
    | some (.u64s l) =>
      (match evalE s idx with
       | .val (.u64 k) =>
         (match evalE s e with
          | .val (.u64 x) => if k.toNat < l.length then .normal { s with env := s.env.set name (.u64s (l.set k.toNat x)) } else .panic
          | .val _ => .stuck "element value type"
          | o => ofE o)
       | .val (.int k) =>
         (match evalE s e with
          | .val (.u64 x) => if 0 ≤ k ∧ k < l.length then .normal { s with env := s.env.set name (.u64s (l.set k.toNat x)) } else .panic
          | .val _ => .stuck "element value type"
          | o => ofE o)
       | .val _ => .stuck "index type"
       | o => ofE o)
    | _ => .stuck "uint64 slice variable"
  | fuel, .mapSet name k v, s =>
    match s.env.get (name ++ ".k"), s.env.get (name ++ ".v") with
    | some (.keys ks), some (.ints vs) =>
      (match evalE s k with
       | .val (.bytes kb) =>
         (match evalE s v with
          | .val (.int x) =>
            (match ks.findIdx? (· == kb) with
             | some j => .normal { s with env := s.env.set (name ++ ".v") (.ints (vs.set j x)) }
             | none => .normal { s with env := (s.env.set (name ++ ".k") (.keys (ks ++ [kb]))).set (name ++ ".v") (.ints (vs ++ [x])) })
          | .val _ => .stuck "map value type"
          | o => ofE o)
       | .val _ => .stuck "map key type"
       | o => ofE o)
    | _, _ => .stuck "map variable"
  | fuel, .oracle target name, s =>
    match s.env.get (name ++ ".answers") with
    | some (.u64s (r :: rest)) => .normal { s with env := (s.env.set (name ++ ".answers") (.u64s rest)).set target (.u64 r) }
    | some (.u64s []) => .stuck "oracle answers exhausted"
    | _ => .stuck "no oracle answers"
  | fuel, .mapSetV name k v, s =>
    match s.env.get name with
    | some (.iface (.obj m)) =>
      (match evalE s k with
       | .val (.bytes kb) =>
         (match evalE s v with
          | .val (.iface x) => .normal { s with env := s.env.set name (.iface (.obj (mapInsert m kb x))) }
          | .val _ => .stuck "map value type"
          | o => ofE o)
       | .val _ => .stuck "map key type"
       | o => ofE o)
    | _ => .stuck "map variable"
  | fuel, .setB name idx e, s =>
    match s.env.get name with
    | some (.bytes b) =>
      (match evalE s idx with
       | .val (.int k) =>
         (match evalE s e with
          | .val (.u8 x) => if 0 ≤ k ∧ k < b.size then .normal { s with env := s.env.set name (.bytes (b.setIfInBounds k.toNat x)) } else .panic
          | .val _ => .stuck "byte value type"
          | o => ofE o)
       | .val _ => .stuck "index type"
       | o => ofE o)
    | _ => .stuck "byte slice variable"
  | fuel, .tapeAppend base es, s =>
    match evalEs s es with
    | .error o => ofE o
    | .ok vs =>
      match s.env.get (base ++ ".lim") with
      | some (.int lim) =>
        if lim = s.tape.size then
          match asWords vs with
          | some ws => .normal { env := s.env.set (base ++ ".lim") (.int (lim + ws.length)), tape := s.tape ++ ws.toArray }
          | none => .stuck "tape value type"
        else .stuck "append to a restricted view"
      | _ => .stuck "lim"
  | fuel, .setLen base e, s =>
    match evalE s e with
    | .val (.int k) =>
      (match s.env.get (base ++ ".lim") with
       | some (.int lim) => if 0 ≤ k ∧ k ≤ lim then .normal { s with env := s.env.set (base ++ ".lim") (.int k) } else .panic
       | _ => .stuck "lim")
    | .val _ => .stuck "slice bound type"
    | o => ofE o
  | fuel, .setLenFrom dst src e, s =>
    match evalE s e with
    | .val (.int k) =>
      (match s.env.get (src ++ ".lim") with
       | some (.int lim) => if 0 ≤ k ∧ k ≤ lim then .normal { s with env := s.env.set (dst ++ ".lim") (.int k) } else .panic
       | _ => .stuck "lim")
    | .val _ => .stuck "slice bound type"
    | o => ofE o
  | fuel, .copyStruct dst src, s =>
    match copyFields s.env src s.env dst iterFields with
    | some e => .normal { s with env := e }
    | none => .stuck "copyStruct"
  | fuel, .ite c t e, s =>
    match evalE s c with
    | .val (.bool true) => exec funs fuel t s
    | .val (.bool false) => exec funs fuel e s
    | .val _ => .stuck "condition type"
    | o => ofE o
  | fuel, .switch e cases dflt, s =>
    match evalE s e with
    | .val v => execCases funs fuel v cases dflt s
    | o => ofE o
  | fuel, .switchL label e cases dflt, s =>
    match evalE s e with
    | .val v =>
      (match execCases funs fuel v cases dflt s with
       | .brk s' =>
         -- a `break` that names this switch stops here; any other `break` is for the enclosing loop
         (match s'.env.get ("#break:" ++ label) with
          | some (.bool true) => .normal { s' with env := s'.env.set ("#break:" ++ label) (.bool false) }
          | _ => .brk s')
       | o => o)
    | o => ofE o
  | fuel, .brkL label, s => .brk { s with env := s.env.set ("#break:" ++ label) (.bool true) }
  | 0, .loop body, s => .diverge
  | fuel + 1, .loop body, s =>
    match exec funs fuel body s with
    | .normal s' => exec1 funs fuel (.loop body) s'
    | .cont s' => exec1 funs fuel (.loop body) s'
    | .brk s' => .normal s'
    | o => o
  | 0, .while c body, s => .diverge
  | fuel + 1, .while c body, s =>
    match evalE s c with
    | .val (.bool false) => .normal s
    | .val (.bool true) =>
      (match exec funs fuel body s with
       | .normal s' => exec1 funs fuel (.while c body) s'
       | .cont s' => exec1 funs fuel (.while c body) s'
       | .brk s' => .normal s'
       | o => o)
    | .val _ => .stuck "condition type"
    | o => ofE o
  | 0, .forc init c post body, s => .diverge
  | fuel + 1, .forc (i :: is) c post body, s =>
    match exec funs fuel (i :: is) s with
    | .normal s' => exec1 funs fuel (.forc [] c post body) s'
    | .brk _ | .cont _ => .stuck "break outside loop"
    | o => o
  | fuel + 1, .forc [] c post body, s =>
    match evalE s c with
    | .val (.bool false) => .normal s
    | .val (.bool true) =>
      (match exec funs fuel body s with
       | .normal s' | .cont s' =>
         (match exec funs fuel post s' with
          | .normal s'' => exec1 funs fuel (.forc [] c post body) s''
          | .brk _ | .cont _ => .stuck "break in post statement"
          | o => o)
       | .brk s' => .normal s'
       | o => o)
    | .val _ => .stuck "condition type"
    | o => ofE o
  | fuel, .rangeB v e body, s =>
    match evalE s e with
    | .val (.bytes b) => execRange funs fuel v b.toList body s
    | .val _ => .stuck "range operand"
    | o => ofE o
  | fuel, .rangeIB iv v e body, s =>
    match evalE s e with
    | .val (.bytes b) => execRangeI funs fuel iv v 0 b.toList body s
    | .val _ => .stuck "range operand"
    | o => ofE o
  | fuel, .extAssign targets name args, s =>
    match evalEs s args with
    | .error o => ofE o
    | .ok vs =>
      match extCall name vs with
      | none => .stuck ("library function " ++ name)
      | some rs =>
        match assignTargets targets rs s.env with
        | some e => .normal { s with env := e }
        | none => .stuck "result arity"
  | fuel, .cb target fn logs, s =>
    match evalEs s logs with
    | .error o => ofE o
    | .ok vs =>
      let lg := match s.env.get (fn ++ ".log") with | some (.ints l) => l | _ => []
      let e1 := s.env.set (fn ++ ".log") (.ints (lg ++ vs.map valToInt))
      if target == "_" then .normal { s with env := e1 }
      else
        match s.env.get (fn ++ ".results") with
        | some (.bools (r :: rest)) => .normal { s with env := (e1.set (fn ++ ".results") (.bools rest)).set target (.bool r) }
        | some (.bools []) => .stuck "callback answers exhausted"
        | _ => .stuck "no callback answers"
  | 0, .callAssign targets recv fn ptrs args, s => .diverge
  | fuel + 1, .callAssign targets recv fn ptrs args, s =>
    match callFun funs fuel recv fn ptrs args s with
    | .ret s' vs =>
      (match assignTargets targets vs s'.env with
       | some e => .normal { s' with env := e }
       | none => .stuck "result arity")
    | o => o
  | 0, .retCall recv fn ptrs args, s => .diverge
  | fuel + 1, .retCall recv fn ptrs args, s => callFun funs fuel recv fn ptrs args s
  | fuel, .brk, s => .brk s
  | fuel, .cont, s => .cont s
  | fuel, .ret es, s =>
    match evalEs s es with
    | .ok vs => .ret s vs
    | .error o => ofE o
  | 0, .call recv fn args, s => .diverge
  | fuel + 1, .call recv fn args, s =>
    match funs fn with
    | none => .stuck ("unknown function " ++ fn)
    | some fd =>
      match evalEs s args with
      | .error o => ofE o
      | .ok vs =>
        match copyFields s.env recv [] fd.recv iterFields with
        | none => .stuck "receiver"
        | some e0 =>
          match bindParams fd.params vs e0 with
          | none => .stuck "arity"
          | some e1 =>
            match exec funs fuel fd.body { env := e1, tape := s.tape } with
            | .normal s' | .ret s' _ =>
              (match copyFields s'.env fd.recv s.env recv iterFields with
               | some e2 => .normal { env := e2, tape := s'.tape }
               | none => .stuck "receiver back")
            | .brk _ | .cont _ => .stuck "break outside loop"
            | o => o
  -- --- framing: begin (exec1)
  | fuel, .tapeMake base e, s =>
    match evalE s e with
    | .val (.u64 n) =>
      if n.toNat < 2^63 then .normal { env := s.env.set (base ++ ".lim") (.int n.toNat), tape := Array.replicate n.toNat 0 }
      else .panic
    | .val (.int n) =>
      if 0 ≤ n then .normal { env := s.env.set (base ++ ".lim") (.int n), tape := Array.replicate n.toNat 0 } else .panic
    | .val _ => .stuck "make length"
    | o => ofE o
  | fuel, .setLenCap base e, s =>
    match evalE s e with
    | .val (.u64 k) => if k.toNat ≤ s.tape.size then .normal { s with env := s.env.set (base ++ ".lim") (.int k.toNat) } else .panic
    | .val (.int k) => if 0 ≤ k ∧ k ≤ s.tape.size then .normal { s with env := s.env.set (base ++ ".lim") (.int k) } else .panic
    | .val _ => .stuck "slice bound type"
    | o => ofE o
  | fuel, .spawn tag captured, s =>
    match evalEs s (captured.map (·.2)) with
    | .error o => ofE o
    | .ok vs =>
      match assignTargets (captured.map (fun c => tag ++ "." ++ c.1)) vs s.env with
      | some e => .normal { s with env := e.set (tag ++ ".started") (.bool true) }
      | none => .stuck "spawn"
  -- --- framing: end (exec1)
termination_by fuel st _ => (fuel, sizeOf st, 1)

/-- the iterations of a `range` loop over the bytes that were in the slice when the loop started -/
def execRange (funs : String → Option FunDef) : (fuel : Nat) → String → List UInt8 → List Stmt → St → Out
  | fuel, v, [], body, s => .normal s
  | fuel, v, x :: xs, body, s =>
    match exec funs fuel body { s with env := s.env.set v (.u8 x) } with
    | .normal s' | .cont s' => execRange funs fuel v xs body s'
    | .brk s' => .normal s'
    | o => o
termination_by fuel _ xs body _ => (fuel, sizeOf body, xs.length + 3)

/-- `range` with index -/
def execRangeI (funs : String → Option FunDef) : (fuel : Nat) → String → String → Nat → List UInt8 → List Stmt → St → Out
  | fuel, iv, v, k, [], body, s => .normal s
  | fuel, iv, v, k, x :: xs, body, s =>
    match exec funs fuel body { s with env := (s.env.set iv (.int k)).set v (.u8 x) } with
    | .normal s' | .cont s' => execRangeI funs fuel iv v (k + 1) xs body s'
    | .brk s' => .normal s'
    | o => o
termination_by fuel _ _ _ xs body _ => (fuel, sizeOf body, xs.length + 3)

/-- run `recv.fn(args)`: the callee's frame holds the receiver's fields (as listed by the callee), the parameters and
    the shared buffers; afterwards fields and buffers are copied back.  Outcome `.ret s vs`: the caller's state after the
    call and the returned values. -/
def callFun (funs : String → Option FunDef) : (fuel : Nat) → String → String → List String → List Expr → St → Out
  | fuel, recv, fn, ptrs, args, s =>
    match funs fn with
    | none => .stuck ("unknown function " ++ fn)
    | some fd =>
      match evalEs s args with
      | .error o => ofE o
      | .ok vs =>
        match copyFields s.env recv [] fd.recv fd.fields with
        | none => .stuck "receiver"
        | some e0 =>
          match copyPtrs s.env e0 ptrs fd.ptrParams with
          | none => .stuck "pointer arguments"
          | some e0' =>
          match bindParams fd.params vs (copyGlobals s.env e0' globalVars) with
          | none => .stuck "arity"
          | some e1 =>
            match exec funs fuel fd.body { env := e1, tape := s.tape } with
            | .ret s' rs =>
              (match copyFields s'.env fd.recv s.env recv fd.fields with
               | some e2 =>
                 (match copyPtrsBack s'.env e2 ptrs fd.ptrParams with
                  | some e3 => .ret { env := copyGlobals s'.env e3 globalVars, tape := s'.tape } rs
                  | none => .stuck "pointer arguments back")
               | none => .stuck "receiver back")
            | .normal s' =>
              (match copyFields s'.env fd.recv s.env recv fd.fields with
               | some e2 =>
                 (match copyPtrsBack s'.env e2 ptrs fd.ptrParams with
                  | some e3 => .ret { env := copyGlobals s'.env e3 globalVars, tape := s'.tape } []
                  | none => .stuck "pointer arguments back")
               | none => .stuck "receiver back")
            | .brk _ | .cont _ => .stuck "break outside loop"
            | o => o
termination_by fuel _ _ _ _ _ => (fuel + 1, 0, 0)

def execCases (funs : String → Option FunDef) : (fuel : Nat) → Val → List (List Expr × List Stmt) → List Stmt → St → Out
  | fuel, v, [], dflt, s => exec funs fuel dflt s
  | fuel, v, (labels, body) :: rest, dflt, s =>
    match evalEs s labels with
    | .ok vs => if isOneOf v vs then exec funs fuel body s else execCases funs fuel v rest dflt s
    | .error o => ofE o
termination_by fuel _ cs d _ => (fuel, sizeOf cs + sizeOf d, 2)
end

/-- run a function: bind the receiver's fields and the parameters, run the body -/
def runFun (funs : String → Option FunDef) (fd : FunDef) (fuel : Nat) (s : St) : Out :=
  match exec funs fuel fd.body s with
  | .normal s' => .ret s' []
  | .brk _ | .cont _ => .stuck "break outside loop"
  | o => o

end SJ.GoSem
