/-
SJ.Own — who owns which buffer: a deep embedding for `(*ParsedJson).Clone`.

The GoSem interpreter is value-semantic (a slice is its contents), so "the clone shares no memory with its original"
cannot be said in it.  Here a slice is a HEADER (backing array, length, capacity) over a heap of backing arrays, a
`*TStrings` is a pointer to a heap cell holding one header, and a `*ParsedJson` is a record of two headers and such a
pointer.  The printer `tools/extract/clone.go` maps each statement of Clone to one constructor of `Stmt`; what a
constructor MEANS is defined here and nowhere else:

  make([]T, n)      a fresh backing array of n zeros (its id is the allocation counter), len = cap = n
  p[:len(q)]        the same backing array, new length; panics (none) when len(q) > cap(p)
  copy(p, q)        the first min(len p, len q) elements of q's array overwrite those of p's array
  &TStrings{e}      a fresh cell holding e's header
  x.Strings.B       dereferences the pointer: nil panics (none); assigning to it writes the CELL (visible through every
                    pointer to that cell)

All slices of Clone start at index 0 of their array, so a header needs no offset.  Element types play no role.
-/
namespace SJ.Own

/-- a slice header -/
structure Sl where
  arr : Nat
  len : Nat
  cap : Nat
  deriving DecidableEq, Repr

/-- the fields of a `ParsedJson` that Clone touches (`strs`: a pointer to a `TStrings` cell, or nil) -/
structure Hdl where
  msg : Sl
  tape : Sl
  strs : Option Nat
  deriving DecidableEq, Repr

structure Heap where
  arrs : Nat → List Nat   -- backing arrays by id; the length of the list is the size of the allocation
  nextA : Nat             -- ids below are in use
  cells : Nat → Sl        -- `TStrings` cells by id
  nextC : Nat

/-- `pj` is the receiver's struct, `dst` the struct the parameter points to (nil = none) -/
structure St where
  h : Heap
  pj : Hdl
  dst : Option Hdl

inductive Who | pj | dst
  deriving DecidableEq, Repr

inductive Path
  | msg (w : Who) | tape (w : Who) | strB (w : Who)
  deriving DecidableEq, Repr

inductive Expr
  | mk (q : Path)          -- make([]T, len(q))
  | resl (p q : Path)      -- p[:len(q)]
  | path (p : Path)        -- p
  deriving Repr

inductive Cond
  | dstNil | dstStrsNil
  | capLt (p q : Path)     -- cap(p) < len(q)
  deriving Repr

inductive Stmt
  | assign (p : Path) (e : Expr)
  | copy (p q : Path)
  | newDst (em et es : Expr)   -- dst = &ParsedJson{Message: em, Tape: et, Strings: &TStrings{es}, internal: nil}
  | newStrs (e : Expr)         -- dst.Strings = &TStrings{e}
  | clearInternal              -- dst.internal = nil
  | ite (c : Cond) (t e : List Stmt)

def St.hdl (s : St) : Who → Option Hdl
  | .pj => some s.pj
  | .dst => s.dst

def St.setHdl (s : St) (w : Who) (x : Hdl) : St :=
  match w with
  | .pj => { s with pj := x }
  | .dst => { s with dst := some x }

def getSl (s : St) : Path → Option Sl
  | .msg w => (s.hdl w).map (·.msg)
  | .tape w => (s.hdl w).map (·.tape)
  | .strB w => (s.hdl w).bind fun x => x.strs.map fun c => s.h.cells c

def Heap.setCell (h : Heap) (c : Nat) (v : Sl) : Heap :=
  { h with cells := fun i => if i = c then v else h.cells i }

def Heap.setArr (h : Heap) (a : Nat) (v : List Nat) : Heap :=
  { h with arrs := fun i => if i = a then v else h.arrs i }

def setSl (s : St) (p : Path) (v : Sl) : Option St :=
  match p with
  | .msg w => (s.hdl w).map fun x => s.setHdl w { x with msg := v }
  | .tape w => (s.hdl w).map fun x => s.setHdl w { x with tape := v }
  | .strB w => (s.hdl w).bind fun x => x.strs.map fun c => { s with h := s.h.setCell c v }

/-- `make`: a fresh array -/
def alloc (s : St) (n : Nat) : St × Sl :=
  ({ s with h := { (s.h.setArr s.h.nextA (List.replicate n 0)) with nextA := s.h.nextA + 1 } }, ⟨s.h.nextA, n, n⟩)

def evalE (s : St) : Expr → Option (St × Sl)
  | .mk q => (getSl s q).map fun x => alloc s x.len
  | .resl p q => (getSl s p).bind fun a => (getSl s q).bind fun b =>
      if b.len ≤ a.cap then some (s, ⟨a.arr, b.len, a.cap⟩) else none
  | .path p => (getSl s p).map fun a => (s, a)

/-- a fresh `TStrings` cell -/
def allocCell (s : St) (v : Sl) : St × Nat :=
  ({ s with h := { (s.h.setCell s.h.nextC v) with nextC := s.h.nextC + 1 } }, s.h.nextC)

def evalC (s : St) : Cond → Option Bool
  | .dstNil => some s.dst.isNone
  | .dstStrsNil => s.dst.map fun d => d.strs.isNone
  | .capLt p q => (getSl s p).bind fun a => (getSl s q).map fun b => decide (a.cap < b.len)

def copyArr (dstA srcA : List Nat) (n : Nat) : List Nat := srcA.take n ++ dstA.drop n

mutual
def exec (s : St) : Stmt → Option St
  | .assign p e => (evalE s e).bind fun (s1, v) => setSl s1 p v
  | .copy p q => (getSl s p).bind fun a => (getSl s q).map fun b =>
      { s with h := s.h.setArr a.arr (copyArr (s.h.arrs a.arr) (s.h.arrs b.arr) (min a.len b.len)) }
  | .newDst em et es =>
      (evalE s em).bind fun (s1, m) => (evalE s1 et).bind fun (s2, t) => (evalE s2 es).map fun (s3, b) =>
        let (s4, c) := allocCell s3 b
        { s4 with dst := some { msg := m, tape := t, strs := some c } }
  | .newStrs e => (evalE s e).bind fun (s1, b) => s1.dst.map fun d =>
      let (s2, c) := allocCell s1 b
      { s2 with dst := some { d with strs := some c } }
  | .clearInternal => s.dst.map fun _ => s
  | .ite c t e => (evalC s c).bind fun b => if b then execL s t else execL s e
def execL (s : St) : List Stmt → Option St
  | [] => some s
  | x :: xs => (exec s x).bind fun s1 => execL s1 xs
end

/-- what a slice shows -/
def view (h : Heap) (x : Sl) : List Nat := (h.arrs x.arr).take x.len

end SJ.Own
