import SJ.Model.Tape
import SJ.Spec.F64
set_option linter.unusedVariables false
/-
Model of `parseNumber` (`parse_number.go`), of the `strconv` functions it calls (ParseInt and
ParseUint exactly; ParseFloat *by contract*: correctly rounded, `ErrRange` iff infinite), and of the
atom validators of `stage2_build_tape_amd64.go`.
-/
namespace SJ
open Generated

@[inline] def numRune (b : UInt8) : Nat := tIsNumberRune.getD b.toNat 0
@[inline] def isDigit (b : UInt8) : Bool := 48 ≤ b && b ≤ 57

/-- Value of a run of ASCII digits. -/
def digitsVal (ds : List UInt8) : Nat := ds.foldl (fun acc d => acc * 10 + (d.toNat - 48)) 0

inductive ConvErr | syntax | range deriving DecidableEq, Repr

/-- `strconv.ParseInt(s, 10, 64)` -/
def parseInt64 (s : List UInt8) : Except ConvErr Int :=
  let (neg, ds) := match s with
    | 43 :: r => (false, r)
    | 45 :: r => (true, r)
    | r => (false, r)
  if ds.isEmpty ∨ !ds.all isDigit then .error .syntax
  else
    let n := digitsVal ds
    if !neg ∧ n ≥ 2^63 then .error .range
    else if neg ∧ n > 2^63 then .error .range
    else .ok (if neg then -(n : Int) else n)

/-- `strconv.ParseUint(s, 10, 64)` -/
def parseUint64 (s : List UInt8) : Except ConvErr Nat :=
  if s.isEmpty ∨ !s.all isDigit then .error .syntax
  else
    let n := digitsVal s
    if n ≥ 2^64 then .error .range else .ok n

/-- Syntax accepted by `strconv.ParseFloat` over the alphabet that survives the rune table
    (`[0-9.+-eE]`): sign? digits? ('.' digits?)? with at least one digit, then ([eE] sign? digits+)?.
    Returns (neg, mantissa digits as a number, decimal exponent). -/
def parseFloatSyntax (s : List UInt8) : Option (Bool × Nat × Int) :=
  let (neg, r) := match s with
    | 43 :: r => (false, r)
    | 45 :: r => (true, r)
    | r => (false, r)
  let ip := r.takeWhile isDigit
  let r := r.dropWhile isDigit
  let (fp, r) := match r with
    | 46 :: r' => (r'.takeWhile isDigit, r'.dropWhile isDigit)
    | _ => ([], r)
  if ip.isEmpty ∧ fp.isEmpty then none
  else
    let mant := digitsVal (ip ++ fp)
    let fl : Int := fp.length
    match r with
    | [] => some (neg, mant, -fl)
    | c :: r' =>
      if c == 101 ∨ c == 69 then
        let (eneg, r'') := match r' with
          | 43 :: x => (false, x)
          | 45 :: x => (true, x)
          | x => (false, x)
        if r''.isEmpty ∨ !r''.all isDigit then none
        else
          -- strconv caps the exponent accumulator at 10000; any cap beyond the float range is equivalent
          let sig := r''.dropWhile (· == 48)
          let e : Int := if sig.length > 7 then 10000000 else digitsVal sig
          some (neg, mant, (if eneg then -e else e) - fl)
      else none

/-- `strconv.ParseFloat(s, 64)` by contract: the correctly rounded value, or an error when the syntax
    is wrong or the result overflows. -/
def parseFloat64 (s : List UInt8) : Option UInt64 :=
  match parseFloatSyntax s with
  | none => none
  | some (neg, m, e) => F64.roundDecimal neg m e

/-- The scanning loop of `parseNumber`: `none` = abort (return 0,0); else (pos, found). -/
def numScan (buf : Bytes) (start : Nat) : Option (Nat × Nat) := Id.run do
  let mut pos := 0
  let mut found := 0
  for h : k in [start:buf.size] do
    let i := k - start
    let v := buf[k]
    let t := numRune v
    if t == 0 then return none
    if t == cisEOVFlag then break
    if t &&& cisMustHaveDigitNext > 0 then
      if buf.size - start < i + 2 ∨ (numRune (buf.getD (k+1) 0)) &&& cisDigitFlag == 0 then return none
    found := found ||| t
    pos := i + 1
  return some (pos, found)

/-- `parseNumber(buf[start:])`: `none` = tag 0; else (tag word, value word). -/
def parseNumber (buf : Bytes) (start : Nat) : Option (UInt64 × UInt64) :=
  match numScan buf start with
  | none => none
  | some (pos, found) =>
  if pos == 0 then none else
  let lit := (buf.extract start (start + pos)).toList
  let b0 := buf.getD start 0
  let b1 := buf.getD (start + 1) 0
  let floatTag : UInt64 := mkWord tagFloat 0
  let flagged : UInt64 := floatTag ||| wFloatOverflowedInteger
  let floatPath (tag : UInt64) : Option (UInt64 × UInt64) :=
    let first := if b0 == 45 then 1 else 0
    if pos > first + 1 ∧ buf.getD (start + first) 0 == 48 ∧ (numRune (buf.getD (start + first + 1) 0)) &&& cisFloatOnlyFlag == 0 then none
    else match parseFloat64 lit with
      | some bits => some (tag, bits)
      | none => none
  if found &&& cisFloatOnlyFlag == 0 ∧ pos ≤ cmaxIntLen then
    let minus := found &&& cisMinusFlag != 0
    if !minus ∧ pos > 1 ∧ b0 == 48 then none
    else if minus ∧ pos > 2 ∧ b1 == 48 then none
    else
      match parseInt64 lit with
      | .ok z => some (mkWord tagInteger 0, ofInt64 z)
      | .error e1 =>
        let tag1 := if e1 == .range then flagged else floatTag
        if !minus then
          match parseUint64 lit with
          | .ok n => some (mkWord tagUint 0, UInt64.ofNat n)
          | .error e2 => floatPath (if e2 == .range then flagged else tag1)
        else floatPath tag1
  else if found &&& cisFloatOnlyFlag == 0 then floatPath flagged
  else floatPath floatTag

-- Atoms ------------------------------------------------------------------------------------------------

/-- `isNotStructuralOrWhitespace(c) == 0` -/
def isFollow (c : UInt8) : Bool := tStructuralOrWhitespaceNegated.getD c.toNat 1 == 0

def le32 (buf : Bytes) (i : Nat) : Nat :=
  (buf.getD i 0).toNat + (buf.getD (i+1) 0).toNat * 2^8 + (buf.getD (i+2) 0).toNat * 2^16 + (buf.getD (i+3) 0).toNat * 2^24
def le64 (buf : Bytes) (i : Nat) : Nat := le32 buf i + le32 buf (i + 4) * 2^32

def isValidTrueAtom (buf : Bytes) (i : Nat) : Bool :=
  buf.size - i ≥ 5 && le32 buf i == catomTrue && isFollow (buf.getD (i+4) 0)
def isValidNullAtom (buf : Bytes) (i : Nat) : Bool :=
  buf.size - i ≥ 5 && le32 buf i == catomNull && isFollow (buf.getD (i+4) 0)
def isValidFalseAtom (buf : Bytes) (i : Nat) : Bool :=
  if buf.size - i ≥ 8 then isFollow (buf.getD (i+5) 0) && (le64 buf i &&& catomFalseMask) == catomFalse
  else if buf.size - i ≥ 6 then buf.extract i (i+5) == "false".toUTF8.data && isFollow (buf.getD (i+5) 0)
  else false

end SJ
