import SJ.Model.StringDec
set_option linter.unusedVariables false
/-
Windowed model of `_parse_string_validate_only` and `_parse_string` (`/repo/parse_string_amd64.s`), written from the
disassembly comments of the two routines, basic block by basic block.  `SJ/Model/StringDec.lean` is the *scalar* model
(one byte per iteration); here one iteration of the loop is one iteration of the assembly: a 32-byte window is loaded at
the current source position, the bit masks of `\` and `"` in it are computed, and then

  (a) the routine finishes at the first quote if it precedes the first backslash,
  (b) advances 32 bytes if the window has neither,
  (c) handles the escape at the first backslash; for `\u` the "distance to the next quote" is computed from the masks
      of this window, or - no quote in the window, backslash at offset >= 21 - from a second 32-byte load at offset-20.

Conventions (the same as the scalar model's): positions are indices into the padded buffer `a`; a byte past the end of
`a` reads as 0 (`a.getD i 0`); 64-bit pointer arithmetic is done in `Nat` (no wrap: the values are bounded by the buffer
size), the 32-bit register arithmetic that *could* wrap (`lea eax,[rbx-1]`, `sub esi,r15d`, `lea esi,[rsi+r15-20]`) is
done modulo 2^32 (`dec32`, `sub32`).  The code-point arithmetic is `UInt32` and shared with the scalar model (`hex4`,
`encodeUTF8`); the tables are the assembly's DATA (`digitToVal`, `escapeMap`).

Register names in the comments: V = `_parse_string_validate_only`, C = `_parse_string`.
-/
namespace SJ
open Generated

/-! ## the window: `vmovdqu`, `vpcmpeqb`, `vpmovmskb`, `tzcnt`, the two `lea -1 / test` -/

/-- `vpcmpeqb ymm, ymm(window), ymm(c x 32)` ; `vpmovmskb r32, ymm` over `n` bytes starting at `p`:
    bit `k` is set iff byte `p + k` equals `c` (least significant bit = lowest address). -/
def maskGo (a : Bytes) (c : UInt8) : Nat → Nat → Nat
  | 0, _ => 0
  | n + 1, p => (if a.getD p 0 == c then 1 else 0) + 2 * maskGo a c n (p + 1)

/-- the 32-bit mask of the bytes equal to `c` in the window `a[pos, pos+32)` -/
def winMask (a : Bytes) (pos : Nat) (c : UInt8) : Nat := maskGo a c 32 pos

/-- V: `ebx`/`r12d`, C: `ecx`/`r14d` - the backslash mask (LCPI0_0 = 0x5c x 32) and the quote mask (LCPI0_1 = 0x22 x 32) -/
def winMasks (a : Bytes) (pos : Nat) : Nat × Nat := (winMask a pos 92, winMask a pos 34)

def tzGo : Nat → Nat → Nat
  | 0, _ => 0
  | n + 1, m => if m % 2 = 1 then 0 else tzGo n (m / 2) + 1

/-- `tzcnt r64, r64` (the operand is a zero-extended 32-bit mask): index of the lowest set bit, 64 for 0 -/
def tz (m : Nat) : Nat := tzGo 64 m

/-- `lea eax, [rbx - 1]` on a 32-bit register -/
def dec32 (m : Nat) : Nat := (m + 0xFFFFFFFF) % 0x100000000

/-- `sub r32, r32` / `lea r32, [.. - ..]` -/
def sub32 (x y : Nat) : Nat := (x + (0x100000000 - y % 0x100000000)) % 0x100000000

/-- the three ways out of the window test -/
inductive WinCase where
  | quote (t : Nat)     -- the first quote, at window offset `t`, precedes every backslash
  | advance             -- neither a quote nor a backslash in the window
  | esc (off : Nat)     -- the first backslash, at window offset `off`, precedes every quote
  deriving Repr, DecidableEq

/-- The head of the loop, expressed exactly as the assembly does (masks, `x-1`, `and`, `tzcnt`):
    V LBB0_2:  `lea eax,[rbx-1]; test eax,r12d; jne LBB0_3` / `lea eax,[r12-1]; test eax,ebx; je LBB0_28` / `tzcnt r15,rax`
    C prologue and LBB0_29: `lea e?x,[rcx-1]; test ..,r14d; je LBB0_4; jmp LBB0_1`,
    C LBB0_4:  `lea ebx,[r14-1]; test ebx,ecx; je LBB0_8` / `tzcnt r11,rcx`.
    (`Proofs/StringWin.lean`: `winCase_cases`, `winCase_quote`, `winCase_advance`, `winCase_esc` give the positional
    reading - first quote before first backslash / neither / first backslash before first quote.) -/
def winCase (a : Bytes) (pos : Nat) : WinCase :=
  let bs := (winMasks a pos).1
  let q := (winMasks a pos).2
  if dec32 bs &&& q ≠ 0 then .quote (tz q)
  else if dec32 q &&& bs = 0 then .advance
  else .esc (tz bs)

/-- the `n` bytes `a[pos, pos+n)` (0 beyond the end of `a`) -/
def winBytes (a : Bytes) (pos n : Nat) : Bytes := ((List.range n).map fun k => a.getD (pos + k) 0).toArray

/-! ## the `\u` escape (blocks shared, up to register names, by the two routines) -/

/-- Distance from the backslash (window offset `off`) to the next quote, as the `\u` path computes it.
    V: `test r12d,r12d; je LBB0_8; tzcnt rsi,rax; sub esi,r15d`,
       LBB0_8: `mov esi,32; cmp r15d,21; jb LBB0_10; lea eax,[r15-20]; vpcmpeqb ymm2,ymm1,[r13+rax]; vpmovmskb eax,ymm2;
                tzcnt rsi,rax; test eax,eax; mov eax,32; cmove esi,eax; lea esi,[rsi+r15-20]`, LBB0_10: `sub esi,r15d`.
    C: the same with `r14d`/`r11d` (LBB0_11, LBB0_13). -/
def uDist (a : Bytes) (pos off : Nat) : Nat :=
  let q := winMask a pos 34
  if q ≠ 0 then sub32 (tz q) off
  else if off < 21 then sub32 32 off
  else
    let q2 := winMask a (pos + (off - 20)) 34
    let t := if q2 = 0 then 32 else tz q2
    sub32 (sub32 (t + off) 20) off

/-- V LBB0_11 + LBB0_12, C LBB0_14 up to LBB0_20: the code point of the `\u` escape whose backslash is at `p`, and the
    number of source bytes it takes (6, or 12 for a combined surrogate pair); `dist` is `uDist`. -/
def uEscape (a : Bytes) (p dist : Nat) : Option (UInt32 × Nat) :=
  let cp := hex4 a (p + 2)                              -- 4 x (movzx ; movsx [.. + digittoval]) ; shl ; or
  if cp &&& 0xFFFFFC00 == 0xD800 then                   -- and ebx,-1024 ; cmp ebx,55296 ; je LBB0_12
    if dist < 12 then none                              -- cmp esi,12 ; jb LBB0_30
    else if a.getD (p + 6) 0 != 92 then none            -- cmp byte [rax],92 ; jne LBB0_30
    else if a.getD (p + 7) 0 != 117 then none           -- cmp byte [r13+7],117 ; jne LBB0_30
    else
      let cp2 := hex4 a (p + 8)
      if (cp2 ||| cp) > 0xFFFF then none                -- or eax,r12d ; cmp eax,65535 ; ja LBB0_30
      else some ((((cp <<< 10) + 0xFCA00000) ||| (cp2 + 0xFFFF2400)) + 0x10000, 12)
                                                        -- shl r12d,10 ; add r12d,-56623104 ; add esi,-56320 ; or ; add esi,65536
  else some (cp, 6)

/-- V LBB0_18 .. LBB0_23: the length of the UTF-8 encoding (`cmp r12d,128; jae` / `2048; jae` / `65536; jae` /
    `cmp r12d,1114111; ja LBB0_30`) -/
def utf8LenV (cp : UInt32) : Option Nat :=
  if cp ≥ 128 then
    if cp ≥ 2048 then
      if cp ≥ 65536 then
        if cp > 1114111 then none else some 4
      else some 3
    else some 2
  else some 1

/-! ## `_parse_string_validate_only` -/

/-- V, from `tzcnt r15,rax` to the jump to LBB0_29: the escape at window offset `off`.
    Result: (what is added to `r14` = dst_length, the new source position `rax`); `none` = LBB0_30. -/
def escV (a : Bytes) (pos off : Nat) : Option (Nat × Nat) :=
  let e := a.getD (pos + off + 1) 0                     -- movzx esi, byte [r13+r15+1]
  if e != 117 then                                      -- cmp rsi,117 ; jne LBB0_26
    if escapeMap e == 0 then none                       -- LBB0_26: cmp byte [rsi+r10],0 ; je LBB0_30
    else some (off + 1, pos + off + 2)                  --   lea rax,[r13+r15+2] ; inc r15 ; add r14,r15
  else
    let dist := uDist a pos off
    if dist < 6 then none                               -- cmp esi,6 ; jae LBB0_11 / jb LBB0_30
    else                                                -- LBB0_11 (`add r13,r15` ...), LBB0_12, LBB0_18 .. LBB0_23
      (uEscape a (pos + off) dist).bind fun r =>        --   r = (code point, source bytes taken)
        (utf8LenV r.1).map fun n =>
          (off + n, pos + off + r.2)                    -- LBB0_25: add r14,r15 ; add r14,rsi ; rax = r13 + 6 (+ 12)

/-- One iteration of the loop of V, the window at `pos` already classified (`c = winCase a pos`, LBB0_2).
    `pos` = `r13` = `rax` (index into `a`), `dlen` = `r14`; `loop` = the jump back to LBB0_2.
    The length limit is tested at LBB0_29 only, i.e. once per iteration, on the *next* window position.
    (The classification is an argument, and the result of `escV` goes through `Option.bind`, so that no `match` in the
    loop has a discriminant that a proof checker could be tempted to evaluate - cf. the pitfall noted in `Proofs/StrLex.lean`.) -/
def validateIter (a : Bytes) (start lim : Nat) (loop : Nat → Nat → Option (Nat × Nat)) (pos dlen : Nat) :
    WinCase → Option (Nat × Nat)
  | .quote t =>                                         -- LBB0_3: add rsi,rax ; mov [rdx],rsi ; add r14,rax ; mov [rcx],r14
    some ((pos - start) + t, dlen + t)
  | .advance =>                                         -- LBB0_28: add r13,32 ; add r14,32 ; LBB0_29: cmp rsi,r11 ; jb LBB0_2
    if (pos + 32) - start < lim then loop (pos + 32) (dlen + 32) else none
  | .esc off =>
    (escV a pos off).bind fun r =>                      -- LBB0_29: mov rsi,rax ; sub rsi,rdi ; cmp rsi,r11 ; jb LBB0_2
      if r.2 - start < lim then loop r.2 (dlen + r.1) else none

/-- The loop of V; one unit of fuel per iteration. -/
def validateWinGo (a : Bytes) (start lim : Nat) : (fuel : Nat) → (pos dlen : Nat) → Option (Nat × Nat)
  | 0, _, _ => none
  | fuel + 1, pos, dlen => validateIter a start lim (validateWinGo a start lim fuel) pos dlen (winCase a pos)

/-- `_parse_string_validate_only(src = &a[start], &lim, &str_length, &dst_length)`: `some (str_length, dst_length)` when
    the routine returns 1, `none` when it returns 0 (`mov r11,[rsi]; test r11,r11; je LBB0_30` is the `lim = 0` exit).
    The first iteration is entered with `rsi = 0 < lim`; every further one only after the test at LBB0_29.
    Fuel: every iteration advances the source by at least 2 bytes, and beyond the end of `a` there are only zero bytes
    (windows of kind `advance` until the limit is hit), so `a.size + 64` iterations exhaust every run that can succeed
    (`validateWin_fuel` in `Proofs/StringWin.lean`: no amount of fuel makes the loop succeed where this one fails). -/
def validateWin (a : Bytes) (start lim : Nat) : Option (Nat × Nat) :=
  if lim = 0 then none else validateWinGo a start lim (a.size + 64) start 0

/-! ## `_parse_string` -/

/-- C, from `tzcnt r11,rcx` to the jump to LBB0_29: the escape at window offset `off`.
    Result: (the bytes stored at `dst + off`, the new source position `r13`); `none` = LBB0_2 with `eax = 0`.
    The stores of LBB0_20/22/24/26 (`shr ecx,12; add ecx,224; mov [rsi],cl; ... and cl,63; or cl,-128 ...`, classes
    `> 127`, `> 2047`, `> 65535`, `> 1114111`) are `encodeUTF8`. -/
def escC (a : Bytes) (pos off : Nat) : Option (List UInt8 × Nat) :=
  let e := a.getD (pos + off + 1) 0                     -- movzx ecx, byte [rdi+r11+1]
  if e != 117 then                                      -- cmp rcx,117 ; jne LBB0_9
    if escapeMap e == 0 then none                       -- LBB0_9: movzx ecx, byte [rcx+r15] ; test cl,cl ; je LBB0_2
    else some ([escapeMap e], pos + off + 2)            --   mov [rsi+r11],cl ; lea r13,[rdi+r11+2] ; lea rcx,[r11+1] ; add rsi,rcx
  else
    let dist := uDist a pos off
    if dist < 6 then none                               -- cmp r14d,6 ; jae LBB0_14 / jb LBB0_2
    else                                                -- LBB0_14 .. LBB0_20
      (uEscape a (pos + off) dist).bind fun r =>        --   r = (code point, source bytes taken)
        (encodeUTF8 r.1).map fun bs =>                  -- LBB0_20: add rsi,r11 ; stores ; add rsi,{1,2,3,4}
          (bs, pos + off + r.2)                         --   r13 = rdi + 6 (+ 12)

/-- `vmovdqu ymm,[r13] ; vmovdqu [rsi],ymm`: the whole window is stored at the current end of the output -/
def storeWin (a : Bytes) (pos : Nat) (out : Bytes) : Bytes := out ++ winBytes a pos 32

/-- One iteration of the loop of C, the window at `pos` already classified (`c = winCase a pos`).
    `pos` = `rdi` = `r13`; `out` = the bytes `dst[0, rsi - dst)`; `loop` = the jump to LBB0_29.
    Every iteration begins (prologue, LBB0_29) with `storeWin`; *then* the output pointer moves by `t`, 32 or
    `off + (encoded length)` only, so the next store overwrites whatever lies beyond.  We model the net content
    `dst[0, new rsi - dst)`: the stored window cut at the new end (`extract`), plus the bytes the escape code stored. -/
def copyIter (a : Bytes) (loop : Nat → Bytes → Option Bytes) (pos : Nat) (out : Bytes) : WinCase → Option Bytes
  | .quote t =>                                         -- LBB0_1: tzcnt rax,r14 ; add rax,rsi ; mov [rdx],rax
    some ((storeWin a pos out).extract 0 (out.size + t))
  | .advance =>                                         -- LBB0_8: add rdi,32 ; add rsi,32
    loop (pos + 32) (storeWin a pos out)
  | .esc off =>
    (escC a pos off).bind fun r =>
      loop r.2 ((storeWin a pos out).extract 0 (out.size + off) ++ r.1.toArray)

/-- The loop of C; one unit of fuel per iteration. -/
def copyWinGo (a : Bytes) : (fuel : Nat) → (pos : Nat) → (out : Bytes) → Option Bytes
  | 0, _, _ => none
  | fuel + 1, pos, out => copyIter a (copyWinGo a fuel) pos out (winCase a pos)

/-- `_parse_string(src = &a[start], dst, &string_buf_loc)`: the bytes `dst[0, string_buf_loc - dst)` when the routine
    returns 1, `none` when it returns 0 (then `string_buf_loc` is not written).  The routine has no limit argument.
    Bytes of `dst` beyond the final length do not matter: the Go wrapper `parseStringSimd` (`parse_string_amd64.go`)
    only does `sh.Len += string_buf_loc - dst`, i.e. grows the string buffer by the returned length; whatever the
    32-byte stores left behind that point is outside the slice (and is overwritten by the next string).
    Fuel as for `validateWin`: beyond the end of `a` no quote can be found, `none` is the run-away result
    (`copyWin_fuel`). -/
def copyWin (a : Bytes) (start : Nat) : Option Bytes :=
  copyWinGo a (a.size + 64) start #[]

end SJ
