import SJ.Spec.F64
import SJ.Generated.Consts
/-
Model of `appendFloat` / `appendFloatF` / `fmtF` (`parsed_json.go`, `appendfloat_f.go`) and of the
`'e'`, shortest branch of `strconv.AppendFloat`.  `ryuFtoaShortest` is modelled *by contract*:
`shortest` computes, in exact arithmetic, the shortest decimal in the rounding interval of the
value that is closest to it (ties to the even digit).
-/
namespace SJ.FloatFmt
open SJ SJ.Generated

/-- Decimal digits (most significant first) of `n`; `[]` for 0. -/
def digitsOf (n : Nat) : List Nat :=
  if n = 0 then [] else (Nat.toDigits 10 n).map (fun c => c.toNat - 48)

def stripTrailingZeros (ds : List Nat) : List Nat :=
  (ds.reverse.dropWhile (· == 0)).reverse

/-- `⌊log10 (a/b)⌋` for positive `a b`. -/
def floorLog10 (a b : Nat) : Int :=
  -- estimate from digit counts, then adjust (at most two steps)
  let est : Int := (F64.numDigits a : Int) - (F64.numDigits b : Int)
  -- invariant wanted: 10^r ≤ a/b < 10^(r+1)
  let ge (r : Int) : Bool := if r ≥ 0 then a ≥ b * 10 ^ r.toNat else a * 10 ^ r.natAbs ≥ b
  if ge (est + 1) then est + 1 else if ge est then est else est - 1

structure Shortest where
  digits : List Nat   -- d[0..nd)
  dp : Int            -- value = 0.d0d1… × 10^dp
  deriving Repr, DecidableEq

/-- Compare `d · 10^k` with `x/b`. -/
def cmpScaled (d : Nat) (k : Int) (x b : Nat) : Ordering :=
  if k ≥ 0 then compare (d * 10 ^ k.toNat * b) x else compare (d * b) (x * 10 ^ k.natAbs)

/-- |d·10^k − v/b| as a numerator over the common denominator `b · 10^max(-k,0)`. -/
def distScaled (d : Nat) (k : Int) (v b : Nat) : Nat :=
  let (p, q) := if k ≥ 0 then (d * 10 ^ k.toNat * b, v) else (d * b, v * 10 ^ k.natAbs)
  if p ≥ q then p - q else q - p

/-- The contract of `ryuFtoaShortest(mant, exp)` for `mant · 2^exp`, `mant ≠ 0`.
    `lowerClose` = the lower neighbour is half as far (power-of-two mantissa, not the smallest exponent). -/
def shortestFrom (mant : Nat) (e2 : Int) (lowerClose : Bool) : Shortest :=
  let sh : Nat := if e2 - 2 ≥ 0 then (e2 - 2).toNat else 0
  let b : Nat := if e2 - 2 ≥ 0 then 1 else 2 ^ (2 - e2).toNat
  let v := 4 * mant * 2 ^ sh
  let hi := (4 * mant + 2) * 2 ^ sh
  let lo := (if lowerClose then 4 * mant - 1 else 4 * mant - 2) * 2 ^ sh
  let incl := mant % 2 == 0
  let inside (d : Nat) (k : Int) : Bool :=
    let cl := cmpScaled d k lo b
    let ch := cmpScaled d k hi b
    (cl == .gt || (incl && cl == .eq)) && (ch == .lt || (incl && ch == .eq))
  let l10 := floorLog10 v b
  let rec go (n : Nat) (fuel : Nat) : Shortest :=
    match fuel with
    | 0 => { digits := [], dp := 0 }
    | fuel + 1 =>
      let k : Int := l10 - (n - 1 : Nat)
      let d0 : Nat := if k ≥ 0 then v / (b * 10 ^ k.toNat) else (v * 10 ^ k.natAbs) / b
      let d1 := d0 + 1
      let in0 := d0 > 0 && inside d0 k
      let in1 := inside d1 k
      let pick : Option Nat :=
        if in0 && in1 then
          let x0 := distScaled d0 k v b
          let x1 := distScaled d1 k v b
          if x0 < x1 then some d0 else if x1 < x0 then some d1 else (if d0 % 2 == 0 then some d0 else some d1)
        else if in0 then some d0 else if in1 then some d1 else none
      match pick with
      | some d =>
        let ds := digitsOf d
        { digits := stripTrailingZeros ds, dp := k + ds.length }
      | none => go (n + 1) fuel
  go 1 18

/-- Shortest digits of a finite, non-zero binary64. -/
def shortest (bits : UInt64) : Shortest :=
  let ex := ((bits >>> 52) &&& 0x7ff).toNat
  let fr := (bits &&& 0xfffffffffffff).toNat
  if ex == 0 then
    if fr == 0 then { digits := [], dp := 0 } else shortestFrom fr (-1074) false
  else shortestFrom (fr + 2^52) ((ex : Int) - 1075) (fr == 0 && ex > 1)

def digitChar (d : Nat) : UInt8 := UInt8.ofNat (48 + d)

def natToAscii (n : Nat) : Bytes := ((Nat.toDigits 10 n).map (fun c => UInt8.ofNat c.toNat)).toArray

/-- `fmtF(dst, neg, digs, prec)` with `prec = max(nd - dp, 0)`. -/
def fmtF (neg : Bool) (s : Shortest) : Bytes := Id.run do
  let nd : Int := s.digits.length
  let prec : Nat := (nd - s.dp).toNat
  let mut out : Bytes := #[]
  if neg then out := out.push 45
  if s.dp > 0 then
    let dp := s.dp.toNat
    let m := min s.digits.length dp
    for d in s.digits.take m do out := out.push (digitChar d)
    for _ in [m:dp] do out := out.push 48
  else
    out := out.push 48
  if prec > 0 then
    out := out.push 46
    for i in [0:prec] do
      let j : Int := s.dp + i
      let ch := if 0 ≤ j ∧ j < nd then digitChar (s.digits.getD j.toNat 0) else 48
      out := out.push ch
  return out

/-- `strconv.AppendFloat(dst, f, 'e', -1, 64)` for a finite non-zero value. -/
def fmtE (neg : Bool) (s : Shortest) : Bytes := Id.run do
  let mut out : Bytes := #[]
  if neg then out := out.push 45
  out := out.push (digitChar (s.digits.getD 0 0))
  if s.digits.length > 1 then
    out := out.push 46
    for d in s.digits.drop 1 do out := out.push (digitChar d)
  out := out.push 101
  let exp : Int := if s.digits.isEmpty then 0 else s.dp - 1
  out := out.push (if exp < 0 then 45 else 43)
  let a := exp.natAbs
  if a < 10 then out := out.push 48
  out := out ++ natToAscii a
  return out

/-- The "clean up e-09 to e-9" step. -/
def cleanExp (b : Bytes) : Bytes :=
  let n := b.size
  if n ≥ 4 ∧ b.getD (n-4) 0 == 101 ∧ b.getD (n-3) 0 == 45 ∧ b.getD (n-2) 0 == 48 then
    (b.extract 0 (n-2)).push (b.getD (n-1) 0)
  else b

/-- The literal thresholds of `appendFloat`, rounded to binary64 as the Go compiler does. -/
def parseThreshold (s : String) : UInt64 :=
  -- literals of the form <digits>e<sign?><digits>
  match s.splitOn "e" with
  | [m, e] => (F64.roundDecimal false m.toNat! (e.toInt!)).getD 0
  | _ => 0

def loBits : UInt64 := parseThreshold cfloatFmtLo
def hiBits : UInt64 := parseThreshold cfloatFmtHi

/-- `appendFloat(nil, f)`: `none` for Inf/NaN. -/
def appendFloat (bits : UInt64) : Option Bytes :=
  if !F64.isFinite bits then none else
  let neg := (bits >>> 63) != 0
  let abs := bits &&& 0x7fffffffffffffff
  let s := shortest abs
  if (abs ≥ loBits && abs < hiBits) || abs == 0 then some (fmtF neg s)
  else some (cleanExp (fmtE neg s))

end SJ.FloatFmt
