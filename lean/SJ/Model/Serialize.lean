import SJ.Model.Tape
set_option linter.unusedVariables false
/-
Model of `Serializer.Serialize` / `Deserialize` (`parsed_serialize.go`).  The codecs (S2, zstd) are a
parameter; the string hash is a parameter (`runtime.memhash` is seeded per process, so the theorems
quantify over every hash function).  Every tape access of the reconstruction goes through the
checked accessors, so "does not panic" is a statement about this code.
-/
namespace SJ
open Generated

def le64Bytes (w : UInt64) : List UInt8 :=
  (List.range 8).map (fun i => (w >>> (UInt64.ofNat (8 * i))).toUInt8)

def rdLE64 (b : Bytes) (i : Nat) : UInt64 :=
  (List.range 8).foldl (fun acc k => acc ||| ((b.getD (i + k) 0).toUInt64 <<< (UInt64.ofNat (8 * k)))) 0

-- Serialize ---------------------------------------------------------------------------------------------

structure SerState where
  table     : Array Nat := Array.replicate cstringSize 0   -- stringsTable (offset+1, 0 = empty)
  stringBuf : Bytes := #[]
  tags      : Bytes := #[]
  values    : Bytes := #[]

/-- `indexString` -/
def indexString (hash : Bytes → Nat) (s : SerState) (sb : Bytes) : SerState × UInt64 :=
  let h := hash sb % cstringSize
  let off : Int := (s.table.getD h 0 : Int) - 1
  let e : Int := off + sb.size
  if off ≥ 0 ∧ e ≤ s.stringBuf.size ∧ s.stringBuf.extract off.toNat e.toNat == sb then (s, UInt64.ofNat off.toNat)
  else
    let o := s.stringBuf.size
    ({ s with stringBuf := s.stringBuf ++ sb, table := s.table.setIfInBounds h ((o + 1) % 2^32) }, UInt64.ofNat o)

def pushVal (s : SerState) (w : UInt64) : SerState := { s with values := s.values ++ (le64Bytes w).toArray }

/-- The tape loop of `Serialize`. A panic of the Go code (`panic(err)` on a bad string reference,
    unknown tag, index out of range) is `.panic`. -/
def serLoop (pj : PJ) (hash : Bytes → Nat) (s : SerState) (off : Nat) : (fuel : Nat) → Res SerState
  | 0 => .diverge
  | fuel + 1 =>
    if off >= pj.tape.size then .ok s else do
    let entry ← rd pj.tape off
    let ntype := tagOf entry
    let payload := payloadOf entry
    let sw := caseOf swSerialize
    if inCase (sw 0) ntype then   -- TagNop
      serLoop pj hash { s with tags := s.tags.push ntype } (off + 1) fuel
    else if inCase (sw 1) ntype then do   -- TagString
      let len ← rd pj.tape (off + 1)
      match stringByteAt pj payload len with
      | .ok sb =>
        let (s, o) := indexString hash s sb
        let s := pushVal (pushVal s o) (UInt64.ofNat sb.size)
        serLoop pj hash { s with tags := s.tags.push ntype } (off + 2) fuel
      | _ => .panic
    else if inCase (sw 2) ntype ∨ inCase (sw 3) ntype then do   -- TagUint, TagInteger
      let v ← rd pj.tape (off + 1)
      serLoop pj hash { (pushVal s v) with tags := (pushVal s v).tags.push ntype } (off + 2) fuel
    else if inCase (sw 4) ntype then do   -- TagFloat
      let v ← rd pj.tape (off + 1)
      if payload == 0 then
        serLoop pj hash { (pushVal s v) with tags := (pushVal s v).tags.push ntype } (off + 2) fuel
      else
        let s := pushVal (pushVal s entry) v
        serLoop pj hash { s with tags := s.tags.push tagFloatWithFlag } (off + 2) fuel
    else if inCase (sw 5) ntype then   -- null, true, false
      serLoop pj hash { s with tags := s.tags.push ntype } (off + 1) fuel
    else if inCase (sw 6) ntype then   -- { [ r
      let s := pushVal s (payload - UInt64.ofNat off)
      serLoop pj hash { s with tags := s.tags.push ntype } (off + 1) fuel
    else if inCase (sw 7) ntype then   -- } ] end
      serLoop pj hash { s with tags := s.tags.push ntype } (off + 1) fuel
    else .panic

structure Sections where
  tapeSize : Nat
  strings  : Bytes     -- always empty when produced by Serialize
  msg      : Bytes
  tags     : Bytes
  values   : Bytes
  deriving Repr, Inhabited

def serialize (pj : PJ) (hash : Bytes → Nat) : Res Sections := do
  let s ← serLoop pj hash {} 0 (pj.tape.size + 1)
  .ok { tapeSize := pj.tape.size, strings := #[], msg := s.stringBuf, tags := s.tags, values := s.values }

-- Deserialize: reconstruction -----------------------------------------------------------------------------

structure RebState where
  tape   : Array UInt64
  off    : Nat := 0
  vpos   : Nat := 0      -- read position in `values`
  nSkips : Nat := 0

/-- the "we owe skips" loop -/
def flushSkips (tape : Array UInt64) (off n : Nat) : (k : Nat) → Res (Array UInt64 × Nat)
  | 0 => .ok (tape, off)
  | k + 1 => do
    let t ← wr tape off (mkWord tagNop (UInt64.ofNat (k + 1)))
    flushSkips t (off + 1) n k

/-- One tag of the reconstruction loop. -/
def rebStep (values : Bytes) (s : RebState) (t : UInt8) : Res RebState := do
  if s.off == s.tape.size then .error .generic else
  let tagDst : UInt64 := t.toUInt64 <<< 56
  let sw := caseOfSw swDeserialize 1      -- the reconstruction switch (switch 0 is the two-entry guard)
  -- flush owed skips
  let s ← (if s.nSkips > 0 ∧ !(inCase (sw 0) t) then
      if s.nSkips ≥ s.tape.size - s.off then .error .generic else do
      let (tp, off) ← flushSkips s.tape s.off s.nSkips s.nSkips
      .ok { s with tape := tp, off := off, nSkips := 0 }
    else .ok s)
  let two := inCase (caseOfSw swDeserialize 0 0) t
  if two ∧ s.off + 1 ≥ s.tape.size then .error .generic else
  let left := values.size - s.vpos
  if inCase (sw 0) t then .ok { s with nSkips := s.nSkips + 1 }
  else if inCase (sw 1) t then   -- string
    if left < 16 then .error .generic else do
    let tp ← wr s.tape s.off (tagDst ||| rdLE64 values s.vpos)
    let tp ← wr tp (s.off + 1) (rdLE64 values (s.vpos + 8))
    .ok { s with tape := tp, off := s.off + 2, vpos := s.vpos + 16 }
  else if inCase (sw 2) t then   -- float, int, uint
    if left < 8 then .error .generic else do
    let tp ← wr s.tape s.off tagDst
    let tp ← wr tp (s.off + 1) (rdLE64 values s.vpos)
    .ok { s with tape := tp, off := s.off + 2, vpos := s.vpos + 8 }
  else if inCase (sw 3) t then   -- float with flag
    if left < 16 then .error .generic else do
    let tp ← wr s.tape s.off (rdLE64 values s.vpos)
    let tp ← wr tp (s.off + 1) (rdLE64 values (s.vpos + 8))
    .ok { s with tape := tp, off := s.off + 2, vpos := s.vpos + 16 }
  else if inCase (sw 4) t then do  -- null, true, false, end
    let tp ← wr s.tape s.off tagDst
    .ok { s with tape := tp, off := s.off + 1 }
  else if inCase (sw 5) t then   -- { [
    if left < 8 then .error .generic else
    let val := rdLE64 values s.vpos + UInt64.ofNat s.off
    if val.toNat > s.tape.size ∨ val.toNat < s.off + 2 then .error .generic else do
    let tp ← wr s.tape s.off (tagDst ||| val)
    let tp ← wr tp (val.toNat - 1) (((openToClose t).toUInt64 <<< 56) ||| UInt64.ofNat s.off)
    .ok { s with tape := tp, off := s.off + 1, vpos := s.vpos + 8 }
  else if inCase (sw 6) t then   -- root
    if left < 8 then .error .generic else
    let val := rdLE64 values s.vpos + UInt64.ofNat s.off
    if val.toNat > s.tape.size then .error .generic else do
    let tp ← wr s.tape s.off (tagDst ||| val)
    .ok { s with tape := tp, off := s.off + 1, vpos := s.vpos + 8 }
  else if inCase (sw 7) t then do  -- } ]
    let cur ← rd s.tape s.off
    if cur &&& wJSONTAGMASK != tagDst then .error .generic
    else .ok { s with off := s.off + 1 }
  else .error .generic

def rebLoop (values : Bytes) (s : RebState) : List UInt8 → Res RebState
  | [] => .ok s
  | t :: ts => do
    let s' ← rebStep values s t
    rebLoop values s' ts

/-- Reconstruct the tape from the tag and value streams into `init` (the destination's previous
    contents, resized to the declared tape size). -/
def rebuild (init : Array UInt64) (tags values : Bytes) : Res (Array UInt64) := do
  let s ← rebLoop values { tape := init } tags.toList
  let (tp, off) ← (if s.nSkips > 0 then
      if s.nSkips > s.tape.size - s.off then (.error .generic : Res (Array UInt64 × Nat))
      else flushSkips s.tape s.off s.nSkips s.nSkips
    else .ok (s.tape, s.off))
  if off != tp.size then .error .generic
  else if values.size - s.vpos > 0 then .error .generic
  else .ok tp

def deserializeSections (sec : Sections) (init : Array UInt64) : Res PJ := do
  let tp ← rebuild init sec.tags sec.values
  .ok { tape := tp, strings := sec.strings, msg := sec.msg }

-- Deserialize: framing ------------------------------------------------------------------------------------

/-- `binary.ReadUvarint`: value and new position; `none` on EOF or overflow. -/
def readUvarint (b : Bytes) (pos : Nat) : Option (UInt64 × Nat) := Id.run do
  let mut x : UInt64 := 0
  let mut s : Nat := 0
  for i in [0:10] do
    if pos + i ≥ b.size then return none
    let c := b.getD (pos + i) 0
    if c < 0x80 then
      if i == 9 ∧ c > 1 then return none
      return some (x ||| (c.toUInt64 <<< (UInt64.ofNat s)), pos + i + 1)
    x := x ||| ((c &&& 0x7f).toUInt64 <<< (UInt64.ofNat s))
    s := s + 7
  return none

/-- Codec contract: `(blockType, compressed, wantLen) ↦ decompressed bytes or failure`. -/
abbrev Codec := UInt8 → Bytes → Nat → Option Bytes

inductive BlockRes where
  | data (b : Bytes)      -- block decoded (synchronously or by a codec)
  | codecErr              -- asynchronous codec error (recorded in *dstErr)
  | fail                  -- decBlock returned an error
  deriving Inhabited

/-- `decBlock(br, dst)` with `len(dst) = want`. Returns the result and the new read position. -/
def decBlock (codec : Codec) (b : Bytes) (pos : Nat) (want : Nat) : BlockRes × Nat :=
  match readUvarint b pos with
  | none => (.fail, pos)
  | some (size, pos) =>
    let left := b.size - pos
    if size.toNat > left then (.fail, pos)
    else if size == 0 ∧ want == 0 then (.data #[], pos)
    else if size.toNat < 1 then (.fail, pos)
    else
      let typ := b.getD pos 0
      let pos := pos + 1
      let n := size.toNat - 1
      let compressed := b.extract pos (pos + n)
      let pos := pos + n
      if typ.toNat == cblockTypeUncompressed then
        if compressed.size != want then (.fail, pos) else (.data compressed, pos)
      else if typ.toNat == cblockTypeS2 ∨ typ.toNat == cblockTypeZstd then
        match codec typ compressed want with
        | some d => (.data d, pos)
        | none => (.codecErr, pos)
      else (.fail, pos)

/-- `Deserialize(src, dst)` for a destination whose tape backing array holds `prior`. -/
def deserialize (codec : Codec) (src : Bytes) (prior : Array UInt64) : Res PJ :=
  if src.size == 0 then .error .generic else
  if (src.getD 0 0).toNat > cserializedVersion then .error .generic else
  match readUvarint src 1 with
  | none => .error .generic
  | some (c, pos) =>
  if toInt64 c > ((src.size - pos : Nat) : Int) then .error .generic else
  match readUvarint src pos with
  | none => .error .generic
  | some (ts, pos) =>
  match readUvarint src pos with
  | none => .error .generic
  | some (ss, pos) =>
  let (rS, pos) := decBlock codec src pos ss.toNat
  match rS with
  | .fail => .error .generic
  | _ =>
  match readUvarint src pos with
  | none => .error .generic
  | some (ms, pos) =>
  let (rM, pos) := decBlock codec src pos ms.toNat
  match rM with
  | .fail => .error .generic
  | _ =>
  match readUvarint src pos with
  | none => .error .generic
  | some (tgs, pos) =>
  let (rT, pos) := decBlock codec src pos tgs.toNat
  match rT with
  | .fail => .error .generic
  | _ =>
  match readUvarint src pos with
  | none => .error .generic
  | some (vs, pos) =>
  let (rV, _) := decBlock codec src pos vs.toNat
  match rV, rT with
  | .fail, _ => .error .generic
  | _, .codecErr => .error .generic
  | .codecErr, _ => .error .generic
  | .data values, .data tags =>
    let init : Array UInt64 := (prior.extract 0 ts.toNat) ++ Array.replicate (ts.toNat - prior.size) 0
    match rebuild init tags values with
    | .ok tp =>
      match rS with
      | .codecErr => .error .generic
      | .data strs =>
        let msg := match rM with | .data m => m | _ => Array.replicate ms.toNat 0
        .ok { tape := tp, strings := strs, msg := msg }
      | .fail => .error .generic
    | .error e => .error e
    | .panic => .panic
    | .diverge => .diverge
  | _, .fail => .error .generic

end SJ
