import SJ.Basic
set_option linter.unusedVariables false
/-
`ParseNDStream`'s ordering mechanism (simdjson_amd64.go): the reader goroutine creates one result channel per
chunk and puts it on `queue` *in chunk order* before the chunk's parser goroutine is started; the forwarding
goroutine takes the channels from `queue` in order and waits on each in turn.  Parsers finish in any order.
Transition system: `spawn` (reader enqueues the channel of chunk `spawned`), `complete k` (parser of chunk `k`
delivers into its channel; any order, at most once), `forward` (forwarder receives from the oldest channel —
enabled only when that parser has completed).
-/
namespace SJ.StreamQueue

inductive Ev where
  | spawn
  | complete (k : Nat)
  | forward
  deriving Repr, DecidableEq

structure St where
  spawned   : Nat := 0
  completed : List Nat := []      -- chunks whose parser has delivered into its channel
  delivered : List Nat := []      -- chunks forwarded to the caller, oldest first
  deriving Repr

def step (s : St) : Ev → Option St
  | .spawn => some { s with spawned := s.spawned + 1 }
  | .complete k => if k < s.spawned ∧ k ∉ s.completed then some { s with completed := k :: s.completed } else none
  | .forward =>
    let k := s.delivered.length
    if k < s.spawned ∧ k ∈ s.completed then some { s with delivered := s.delivered ++ [k] } else none

def run : St → List Ev → Option St
  | s, [] => some s
  | s, e :: es => match step s e with
    | some s' => run s' es
    | none => none

end SJ.StreamQueue
