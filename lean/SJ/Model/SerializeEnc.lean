import SJ.Model.Serialize
set_option linter.unusedVariables false
/-
The byte format written by `Serializer.Serialize` (parsed_serialize.go), after the tape has been split into
sections by `serialize` (SJ/Model/Serialize.lean).  The block writers are a parameter: `blk d` is everything the
block writer for `d` leaves in its buffer — the block-type byte followed by the (possibly compressed) data.
For the uncompressed mode that is `0 :: d` (`blkRaw`).
-/
namespace SJ
open Generated

/-- `binary.PutUvarint` -/
def putUvarint (x : Nat) : List UInt8 :=
  if h : x < 128 then [UInt8.ofNat x] else UInt8.ofNat (x % 128 + 128) :: putUvarint (x / 128)
termination_by x
decreasing_by omega

/-- block writer of the uncompressed mode -/
def blkRaw (d : Bytes) : Bytes := #[UInt8.ofNat cblockTypeUncompressed] ++ d

/-- `Serialize`'s output for the sections `sec` (strings section is always empty: all strings go to the message). -/
def encodeSections (blk : Bytes → Bytes) (sec : Sections) : Bytes :=
  let m := blk sec.msg
  let t := blk sec.tags
  let v := blk sec.values
  let varInts := (putUvarint 0).length + (putUvarint m.size).length + (putUvarint sec.tags.size).length +
    (putUvarint t.size).length + (putUvarint sec.values.size).length + (putUvarint v.size).length +
    (putUvarint sec.msg.size).length + (putUvarint sec.tapeSize).length
  (([UInt8.ofNat cserializedVersion] ++ putUvarint (1 + m.size + t.size + v.size + varInts) ++
    putUvarint sec.tapeSize ++ [0, 0] ++
    putUvarint sec.msg.size ++ putUvarint m.size).toArray ++ m ++
    (putUvarint sec.tags.size ++ putUvarint t.size).toArray ++ t ++
    (putUvarint sec.values.size ++ putUvarint v.size).toArray ++ v)

/-- the sections of a serialized object whose blocks are all uncompressed (what `Deserialize` feeds to the
    reconstruction), or `none` if the framing is not of that form -/
def sectionsOfRaw (src : Bytes) : Option Sections :=
  if src.size == 0 then none else
  match readUvarint src 1 with
  | none => none
  | some (_, pos) =>
  match readUvarint src pos with
  | none => none
  | some (ts, pos) =>
  match readUvarint src pos with
  | none => none
  | some (ss, pos) =>
  match decBlock (fun _ _ _ => none) src pos ss.toNat with
  | (.data s, pos) =>
    match readUvarint src pos with
    | none => none
    | some (ms, pos) =>
    match decBlock (fun _ _ _ => none) src pos ms.toNat with
    | (.data m, pos) =>
      match readUvarint src pos with
      | none => none
      | some (tgs, pos) =>
      match decBlock (fun _ _ _ => none) src pos tgs.toNat with
      | (.data t, pos) =>
        match readUvarint src pos with
        | none => none
        | some (vs, pos) =>
        match decBlock (fun _ _ _ => none) src pos vs.toNat with
        | (.data v, pos) => if pos == src.size then some { tapeSize := ts.toNat, strings := s, msg := m, tags := t, values := v } else none
        | _ => none
      | _ => none
    | _ => none
  | _ => none

end SJ
