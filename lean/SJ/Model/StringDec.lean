import SJ.Model.Tape
import SJ.Generated.AsmTables
set_option linter.unusedVariables false
/-
Scalar model of `_parse_string_validate_only` / `_parse_string` (`parse_string_amd64.s`): the two
lookup tables are the assembly's own DATA (`digittoval` at 0x40, `escape_map` at 0x140 of LCDATA1).
The 32-byte windowing of the assembly is *not* modelled; what is: the order in which escapes are
recognised, the `\u` arithmetic (including what it does with ill-formed surrogate pairs) and the
UTF-8 encoder.
-/
namespace SJ
open Generated

/-- `digittoval[b]` as a sign-extended 32-bit value (−1 for non-hex digits). -/
def digitToVal (b : UInt8) : UInt32 :=
  let v := aParseString.getD (0x40 + b.toNat) 0
  if v ≥ 128 then UInt32.ofNat (v + 0xFFFFFF00) else UInt32.ofNat v

/-- `escape_map[b]` (0 = invalid escape). -/
def escapeMap (b : UInt8) : UInt8 := (aParseString.getD (0x140 + b.toNat) 0).toUInt8

/-- Four hex digits at `a[i..i+4)` combined as in the assembly (32-bit, garbage in the high bits when a
    digit is invalid). -/
def hex4 (a : Bytes) (i : Nat) : UInt32 :=
  (digitToVal (a.getD i 0) <<< 12) ||| (digitToVal (a.getD (i+1) 0) <<< 8) |||
  (digitToVal (a.getD (i+2) 0) <<< 4) ||| digitToVal (a.getD (i+3) 0)

/-- UTF-8 encoding as done by the assembly (no surrogate check); `none` above 0x10FFFF. -/
def encodeUTF8 (cp : UInt32) : Option (List UInt8) :=
  if cp < 0x80 then some [cp.toUInt8]
  else if cp < 0x800 then some [(cp >>> 6).toUInt8 + 192, (cp.toUInt8 &&& 63) ||| 128]
  else if cp < 0x10000 then
    some [(cp >>> 12).toUInt8 + 224, ((cp >>> 6).toUInt8 &&& 63) ||| 128, (cp.toUInt8 &&& 63) ||| 128]
  else if cp ≤ 0x10FFFF then
    some [(cp >>> 18).toUInt8 + 240, ((cp >>> 12).toUInt8 &&& 63) ||| 128,
          ((cp >>> 6).toUInt8 &&& 63) ||| 128, (cp.toUInt8 &&& 63) ||| 128]
  else none

/-- Distance from position `i` to the next quote byte, capped at 12. -/
def quoteDist (a : Bytes) (i : Nat) : Nat :=
  ((List.range 12).find? (fun d => a.getD (i + d) 0 == 34)).getD 12

/-- The decoder loop: `i` scan position, `out` bytes decoded so far, `fuel` bounds the number of iterations. -/
def decodeStringGo (a : Bytes) (start lim : Nat) : (fuel : Nat) → (i : Nat) → (out : Bytes) → Option (Bytes × Nat)
  | 0, _, _ => none
  | fuel + 1, i, out =>
    if i - start ≥ lim then none else
    let c := a.getD i 0
    if c == 34 then some (out, i)
    else if c == 92 then
      let e := a.getD (i+1) 0
      if e == 117 then
        let dist := quoteDist a i
        if dist < 6 then none else
        let cp := hex4 a (i+2)
        if cp &&& 0xFFFFFC00 == 0xD800 then
          if dist < 12 then none
          else if a.getD (i+6) 0 != 92 ∨ a.getD (i+7) 0 != 117 then none
          else
            let cp2 := hex4 a (i+8)
            if (cp2 ||| cp) > 0xFFFF then none else
            let c32 : UInt32 := (((cp <<< 10) + 0xFCA00000) ||| (cp2 + 0xFFFF2400)) + 0x10000
            match encodeUTF8 c32 with
            | none => none
            | some bs => decodeStringGo a start lim fuel (i + 12) (out ++ bs.toArray)
        else
          match encodeUTF8 cp with
          | none => none
          | some bs => decodeStringGo a start lim fuel (i + 6) (out ++ bs.toArray)
      else
        let m := escapeMap e
        if m == 0 then none
        else decodeStringGo a start lim fuel (i + 2) (out.push m)
    else
      if i ≥ a.size then none   -- ran off the end of the (padded) buffer without a quote
      else decodeStringGo a start lim fuel (i + 1) (out.push c)

/-- Decode a string body starting at `a[i]` (just after the opening quote). Returns the decoded bytes
    and the index of the closing quote; `none` = the validator returns 0. Bytes past the end of `a` read
    as 0 (the Go caller pads). `lim` is `maxStringSize`: a scan position at or beyond `start + lim` fails. -/
def decodeString (a : Bytes) (start : Nat) (lim : Nat) : Option (Bytes × Nat) :=
  decodeStringGo a start lim (a.size + 64) start #[]

end SJ
