import SJ.Model.Tape
set_option linter.unusedVariables false
/-
C17, last clause: "Deserialize reconstructs tapes … with NOP runs whose skip counts land exactly on the next live
entry."  A linear scan over the tape words (a two-word value's second word is data, not a tag): every NOP's skip
count must be the distance to the end of the maximal run of NOP words it belongs to — locally: `1 +` the skip of
the NOP that follows it, or `1` when the next word is not a NOP (or the tape ends).
This is stronger than the format of C17's first sentence (`Layout.Gap`), which parse results and in-place edits obey:
adjacent deletions leave runs like 2,1,3,2,1.
-/
namespace SJ
open Generated

/-- does the tag own a second tape word? -/
def twoWordTag (t : UInt8) : Bool := t == tagInteger || t == tagUint || t == tagFloat || t == tagString

/-- scan from word `k`; `none` = all NOP runs exact, `some j` = the NOP at `j` does not land on the next live entry -/
def nopsExactFrom (tape : Array UInt64) : (fuel : Nat) → (k : Nat) → Option Nat
  | 0, _ => none
  | fuel + 1, k =>
    if k ≥ tape.size then none else
    let w := tape.getD k 0
    let t := tagOf w
    if t == tagNop then
      let s := (payloadOf w).toNat
      let nxt := tape.getD (k + 1) 0
      let want := if k + 1 < tape.size ∧ tagOf nxt == tagNop then (payloadOf nxt).toNat + 1 else 1
      if s == want then nopsExactFrom tape fuel (k + 1) else some k
    else if twoWordTag t then nopsExactFrom tape fuel (k + 2)
    else nopsExactFrom tape fuel (k + 1)

def nopsExact (pj : PJ) : Option Nat := nopsExactFrom pj.tape (pj.tape.size + 1) 0

end SJ
