import SJ.Basic
import SJ.Generated.Consts
import SJ.Generated.GoTables
import SJ.Generated.GoFacts
/-
Model of the tape representation (`parsed_json.go`): constants, word packing, `ParsedJson`,
`stringByteAt`.
-/
namespace SJ
open Generated

/-- `Tag(v >> 56)` -/
@[inline] def tagOf (w : UInt64) : UInt8 := (w >>> 56).toUInt8
/-- `v & JSONVALUEMASK` -/
@[inline] def payloadOf (w : UInt64) : UInt64 := w &&& wJSONVALUEMASK
/-- `uint64(tag) << 56 | val` (no masking of `val`, exactly as `write_tape`) -/
@[inline] def mkWord (t : UInt8) (val : UInt64) : UInt64 := (t.toUInt64 <<< 56) ||| val

/-- `TagToType[t]` -/
@[inline] def tagToType (t : UInt8) : UInt8 := (tTagToType.getD t.toNat 0).toUInt8
/-- `tagOpenToClose[t]` -/
@[inline] def openToClose (t : UInt8) : UInt8 := (tTagOpenToClose.getD t.toNat 0).toUInt8

/-- `ParsedJson` (exported fields only). -/
structure PJ where
  tape    : Array UInt64
  strings : Array UInt8
  msg     : Array UInt8
  deriving Inhabited, Repr

/-- Membership of a tag in one case clause of a `switch` extracted from the Go source. -/
@[inline] def inCase (cases : List Nat) (t : UInt8) : Bool := cases.contains t.toNat

/-- clause `k` of the `i`-th extracted switch of a function (empty if the shape changed). -/
def caseOfSw (sw : List (List (List Nat))) (i k : Nat) : List Nat := (sw.getD i []).getD k []

/-- clause `k` of the first extracted switch of a function. -/
def caseOf (sw : List (List (List Nat))) (k : Nat) : List Nat := caseOfSw sw 0 k

/-- Go slice expression `a[lo:hi]` as a copy. -/
@[inline] def slice (a : Array UInt8) (lo hi : Nat) : Array UInt8 := a.extract lo hi

/-- `stringByteAt(offset, length)`. Arithmetic is on `uint64` as in Go (the sum may wrap);
    an out-of-range slice expression is a panic. -/
def stringByteAt (pj : PJ) (offset length : UInt64) : Res Bytes :=
  if offset &&& wSTRINGBUFBIT == 0 then
    let e := offset + length
    if e.toNat > pj.msg.size ∨ e < offset then .error .generic
    else .ok (slice pj.msg offset.toNat e.toNat)
  else
    let o := offset &&& wSTRINGBUFMASK
    let e := o + length
    if e.toNat > pj.strings.size ∨ e < o then .error .generic
    else .ok (slice pj.strings o.toNat e.toNat)

end SJ
