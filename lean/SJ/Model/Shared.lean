import SJ.Basic
set_option linter.unusedVariables false
/-
C20 — the package-level shared state behind the API, as a transition system of goroutines over shared pools.

What is shared in the Go code (parsed_serialize.go `encBlock`, `decBlock`, `serializeNDStream`; simdjson_amd64.go
`ParseNDStream`):

* four `sync.Pool`s of codec objects (`s2Writers`, `s2FastWriters`, `s2Readers`, `zEncFast`) and two function-local
  pools of byte buffers (`tmpPool`, `dstPool`);
* one `*zstd.Decoder` `zDec`, used only through the stateless call `zDec.DecodeAll(src, dst[:0])`;
* `sync.Once` and tables that are never written after initialisation.

The model keeps what matters for "callers never see each other's data":

* scratch objects live in a *heap* and are handled by *reference*.  A pool is a list of references; a goroutine
  variable holds a reference.  `Put` hands the reference to the pool but — exactly as in Go — does **not** clear the
  variable: a program that goes on using the variable after `Put` really aliases whatever goroutine gets the object
  next.  Nothing in `step` looks at any ownership bookkeeping; ownership is a theorem (`SJ.Shared.pool_exclusive`).
* `Get` returns *any* of the objects currently in the pool or a new one; the schedule decides (this is what
  `sync.Pool` promises: "Get may choose to ignore the pool"; an object dropped by the pool at a GC is an object no
  schedule ever chooses again, so dropping needs no separate event).
* the state of an object is opaque (`S`); `Reset` is an arbitrary function whose only assumed property is the
  contract `ResetContract`: the state after `Reset(a)` does not depend on the state before.  For the byte buffers `S`
  is the *visible* part of the slice (`buf[:len]`); `buf[:0]` is the reset.
-/
namespace SJ.Shared

/-- function update -/
def upd {α : Type} (f : Nat → α) (i : Nat) (x : α) : Nat → α := fun j => if j = i then x else f j

/-- A kind of scratch object: `fresh k` is what `Pool.New` of pool `k` returns, `reset` is `x.Reset(a)`
    (for a byte buffer: re-slicing), `use` is any other method call — it may read and write the whole state of the
    object and returns a result to the caller. -/
structure Scratch (S A I O : Type) where
  fresh : Nat → S
  reset : S → A → S
  use   : S → I → S × O

/-- The contract of `Reset`: the state afterwards is a function of the argument alone.
    (s2.Writer.Reset / s2.Reader.Reset / zstd.Encoder.Reset: "Reset discards the state and makes the object
    equivalent to the result of its constructor, writing to / reading from the argument".) -/
structure ResetContract {S A I O : Type} (sc : Scratch S A I O) : Prop where
  reset_indep : ∀ (s s' : S) (a : A), sc.reset s a = sc.reset s' a

abbrev Ref := Nat

/-- One atomic action of a goroutine.  `L` is the goroutine's own state (its `ParsedJson`, `Serializer`, buffers);
    arguments may depend on it, results are written to it.  `v` is a local variable of the goroutine, `k` a pool. -/
inductive Action (L A I O : Type) where
  /-- anything that touches only the goroutine's own objects -/
  | localOp (f : L → L)
  /-- `v := pool_k.Get()` — the schedule chooses which pooled object, or a new one -/
  | get (k v : Nat)
  /-- `v.Reset(a)` -/
  | resetObj (v : Nat) (a : L → A)
  /-- `o := v.Method(i)`; the result is appended to the goroutine's output log and absorbed into its state -/
  | useObj (v : Nat) (i : L → I) (absorb : L → O → L)
  /-- `pool_k.Put(v)`; `v` keeps pointing to the object -/
  | put (k v : Nat)
  /-- a call `o := f(x)` of a shared *stateless* function (`zDec.DecodeAll(src, dst[:0])`, table lookups) -/
  | pureShared (f : I → O) (x : L → I) (absorb : L → O → L)

abbrev Program (L A I O : Type) := List (Action L A I O)

structure Goroutine (L A I O : Type) where
  loc  : L
  /-- everything the goroutine got back from scratch objects and shared functions, oldest first -/
  out  : List O
  /-- local variables: the references the goroutine currently has in hand (never cleared by `Put`) -/
  vars : Nat → Option Ref
  /-- remaining program -/
  prog : Program L A I O

structure State (L S A I O : Type) where
  heap  : Ref → S
  /-- next unused reference -/
  next  : Nat
  pools : Nat → List Ref
  gs    : Nat → Goroutine L A I O

/-- remove and return the `c`-th element -/
def takeAt {α : Type} : List α → Nat → Option (α × List α)
  | [], _ => none
  | x :: xs, 0 => some (x, xs)
  | x :: xs, c + 1 => (takeAt xs c).map fun p => (p.1, x :: p.2)

variable {L S A I O : Type}

/-- A schedule entry: which goroutine moves, and — if its next action is a `get` — which pooled object it receives
    (`c` < size of the pool: the `c`-th; otherwise `Pool.New` is called). -/
abbrev Sched := List (Nat × Nat)

/-- One atomic step of goroutine `e.1`.  Total: no action ever blocks; a goroutine that has finished stutters.
    A method call through a variable that was never assigned is skipped (Go would panic; `disciplined` excludes it). -/
def step (sc : Scratch S A I O) (s : State L S A I O) (e : Nat × Nat) : State L S A I O :=
  let G := s.gs e.1
  match G.prog with
  | [] => s
  | a :: rest =>
    match a with
    | .localOp f => { s with gs := upd s.gs e.1 { G with loc := f G.loc, prog := rest } }
    | .get k v =>
      match takeAt (s.pools k) e.2 with
      | some (r, l) =>
        { s with pools := upd s.pools k l, gs := upd s.gs e.1 { G with vars := upd G.vars v (some r), prog := rest } }
      | none =>
        { s with heap := upd s.heap s.next (sc.fresh k), next := s.next + 1,
                 gs := upd s.gs e.1 { G with vars := upd G.vars v (some s.next), prog := rest } }
    | .resetObj v a =>
      match G.vars v with
      | some r => { s with heap := upd s.heap r (sc.reset (s.heap r) (a G.loc)), gs := upd s.gs e.1 { G with prog := rest } }
      | none => { s with gs := upd s.gs e.1 { G with prog := rest } }
    | .useObj v i ab =>
      match G.vars v with
      | some r =>
        let p := sc.use (s.heap r) (i G.loc)
        { s with heap := upd s.heap r p.1,
                 gs := upd s.gs e.1 { G with loc := ab G.loc p.2, out := G.out ++ [p.2], prog := rest } }
      | none => { s with gs := upd s.gs e.1 { G with prog := rest } }
    | .put k v =>
      match G.vars v with
      | some r => { s with pools := upd s.pools k (r :: s.pools k), gs := upd s.gs e.1 { G with prog := rest } }
      | none => { s with gs := upd s.gs e.1 { G with prog := rest } }
    | .pureShared f x ab =>
      let o := f (x G.loc)
      { s with gs := upd s.gs e.1 { G with loc := ab G.loc o, out := G.out ++ [o], prog := rest } }

def run (sc : Scratch S A I O) (s : State L S A I O) (sched : Sched) : State L S A I O :=
  sched.foldl (step sc) s

/-- Initial state.  `objs` is the initial content of the pools — any number of objects `(pool, state)` in any
    state (left behind by earlier callers); object number `r` gets reference `r`.  Goroutine `g` starts in local
    state `l0 g` with program `P g`; `N` goroutines = `P g = []` for `g ≥ N` (see `ofList`). -/
def init (sc : Scratch S A I O) (objs : List (Nat × S)) (l0 : Nat → L) (P : Nat → Program L A I O) : State L S A I O where
  heap  := fun r => match objs[r]? with | some p => p.2 | none => sc.fresh 0
  next  := objs.length
  pools := fun k => (List.range objs.length).filter fun r => match objs[r]? with | some p => p.1 == k | none => false
  gs    := fun g => { loc := l0 g, out := [], vars := fun _ => none, prog := P g }

/-- the programs of `N = progs.length` goroutines -/
def ofList (progs : List (Program L A I O)) : Nat → Program L A I O := fun g => progs.getD g []

/-- how often goroutine `g` is scheduled -/
def turns (g : Nat) (sched : Sched) : Nat := sched.countP (fun e => e.1 == g)

/-- The same program run by a single goroutine with nobody else around and empty pools (same `step`). -/
def runSolo (sc : Scratch S A I O) (l0 : L) (p : Program L A I O) : L × List O :=
  let s := run sc (init sc [] (fun _ => l0) (fun g => if g = 0 then p else [])) (List.replicate p.length (0, 0))
  ((s.gs 0).loc, (s.gs 0).out)

/-- what goroutine `g` has computed so far -/
def result (s : State L S A I O) (g : Nat) : L × List O := ((s.gs g).loc, (s.gs g).out)

/-! ### The discipline, on programs -/

/-- status of a local variable: `dead` — not (or no longer) the goroutine's to touch; `got` — received from `Get`,
    content unknown; `ready` — reset since the `Get` -/
inductive VarSt where
  | dead | got | ready
  deriving DecidableEq, Repr

def stStep (st : Nat → VarSt) : Action L A I O → Nat → VarSt
  | .get _ v => upd st v .got
  | .resetObj v _ => upd st v .ready
  | .put _ v => upd st v .dead
  | _ => st

/-- `Reset` and `Put` need an object in hand, any other method call needs a reset object.
    `get` into a variable that still holds an object just drops that object (garbage). -/
def allowed (st : Nat → VarSt) : Action L A I O → Bool
  | .resetObj v _ => st v != .dead
  | .useObj v _ _ => st v == .ready
  | .put _ v => st v != .dead
  | _ => true

def disciplinedFrom (st : Nat → VarSt) : Program L A I O → Bool
  | [] => true
  | a :: p => allowed st a && disciplinedFrom (stStep st a) p

/-- Every method call on a pooled object happens after a `Reset` since its `Get`; nothing touches a variable after
    its `Put` (until it is assigned by a new `Get`); objects that are never put back are simply dropped.
    A safety property of the text of the program: decidable, closed under prefixes. -/
def disciplined (p : Program L A I O) : Bool := disciplinedFrom (fun _ => .dead) p

/-- status of the variables after the actions `p` -/
def statusAfter (p : Program L A I O) : Nat → VarSt := p.foldl stStep (fun _ => .dead)

/-- Goroutine `g`, having executed `done`, *holds* `r` in variable `v`. -/
def Holds (s : State L S A I O) (done : Program L A I O) (g v : Nat) (r : Ref) : Prop :=
  statusAfter done v ≠ .dead ∧ (s.gs g).vars v = some r

/-! ### The discipline, on extracted call sequences

For every pool site of the Go source the extractor lists what happens to the pooled variable, in source order,
from the `Get` on.  Vocabulary:

* `"Get"`       — `x := pool.Get().(T)`
* `"Put"`       — `pool.Put(x)`
* `"Reset"`     — `x.Reset(…)` (codec objects)
* `"slice[:0]"` — `x[:0]` / `x = x[:0]` (byte buffer: nothing of the old content stays visible)
* `"slice[:n]"` — any other re-slice `x = x[:e]`
* `"Read"`      — `x` is the destination of a read that fills a prefix of it and returns the count
                  (`n, err := r.Read(x)`, `io.ReadFull(r, x)`)
* anything else — free text for other uses (`"Close"`, `"Write"`, `"ReadFull"`, `"append"`, `"arg:parseMessage"`, `"return"` …)

A byte buffer from `tmpPool` is reset by the *three* steps `tmp = tmp[:tmpSize]; n, err := buf.Read(tmp); tmp = tmp[:n]`:
the first re-slice alone would expose old bytes, the read overwrites `tmp[:n]`, the second re-slice hides the rest.
So `"slice[:n]"` counts as a reset only in the group `"slice[:n]", "Read", "slice[:n]"` (the extractor emits the second
token of the group only when the bound is the count returned by that read), and is refused anywhere else.
-/

/-- the rest of a site after the reset: anything but `Get`/`Put` and a further widening re-slice, optionally closed
    by one final `Put` -/
def bodyOk : List String → Bool
  | [] => true
  | t :: ts => if t == "Put" then ts.isEmpty else t != "Get" && t != "slice[:n]" && t != "slice[:e]" && bodyOk ts

def disciplinedCalls : List String → Bool
  | "Get" :: "Reset" :: rest => bodyOk rest
  | "Get" :: "slice[:0]" :: rest => bodyOk rest
  | "Get" :: "slice[:n]" :: "Read" :: "slice[:n]" :: rest => bodyOk rest
  | _ => false

/-- The sites of the pinned source, read off by hand (the extractor will emit `Generated.poolDiscipline`).
    `encBlock` has two `Get`s feeding the same variable `enc` (fast / better); the closure it returns does
    `Close, Reset(nil), Put`.  `dstPool` buffers are never put back.  In `ParseNDStream` the buffer is either put
    back at once (chunk of blank lines) or becomes `pj.Message`; the `tmpPool.Put(v.Message)` of a `ParsedJson`
    that came back on the `reuse` channel is the closing `Put` of that same life cycle (the caller promises not to
    touch what it sends on `reuse`). -/
def samplePoolDiscipline : List (String × List String) := [
  ("Serializer.decBlock:s2Readers", ["Get", "Reset", "ReadFull", "Reset", "Put"]),
  ("encBlock:s2FastWriters", ["Get", "Reset", "return", "Close", "Reset", "Put"]),
  ("encBlock:s2Writers", ["Get", "Reset", "return", "Close", "Reset", "Put"]),
  ("encBlock:zEncFast", ["Get", "Reset", "return", "Close", "Reset", "Put"]),
  ("serializeNDStream:dstPool", ["Get", "slice[:0]", "arg:Serialize"]),
  ("ParseNDStream:tmpPool", ["Get", "slice[:n]", "Read", "slice[:n]", "append", "arg:verifChunk", "arg:TrimSpace",
     "arg:parseMessage", "Put"])]

example : samplePoolDiscipline.all (disciplinedCalls ·.2) = true := by decide

/-- what is refused -/
example : [["Get", "Write", "Put"], ["Get", "Reset", "Put", "Write"], ["Get", "Reset", "Put", "Put"], ["Get", "Reset", "Get"],
    ["Get", "slice[:n]", "append", "Put"], ["Get", "slice[:n]", "Read", "Put"],
    ["Get", "slice[:0]", "slice[:n]", "Put"], ["Reset", "Put"], ["Put"], []].all
      (fun s => !disciplinedCalls s) = true := by decide

/-- How an accepted call sequence reads as a program of the model (one variable, one pool): the reset group is one
    `resetObj`, a later `Reset` another, every other token a `useObj`. -/
def bodyToProgram (a : L → A) (i : L → I) (ab : L → O → L) : List String → Program L A I O
  | [] => []
  | t :: ts =>
    (if t == "Put" then .put 0 0 else if t == "Reset" then .resetObj 0 a else .useObj 0 i ab) :: bodyToProgram a i ab ts

def callsToProgram (a : L → A) (i : L → I) (ab : L → O → L) : List String → Program L A I O
  | "Get" :: "Reset" :: rest => .get 0 0 :: .resetObj 0 a :: bodyToProgram a i ab rest
  | "Get" :: "slice[:0]" :: rest => .get 0 0 :: .resetObj 0 a :: bodyToProgram a i ab rest
  | "Get" :: "slice[:n]" :: "Read" :: "slice[:n]" :: rest => .get 0 0 :: .resetObj 0 a :: bodyToProgram a i ab rest
  | cs => bodyToProgram a i ab cs

end SJ.Shared
