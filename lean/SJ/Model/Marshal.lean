import SJ.Model.Object
import SJ.Model.FloatFmt
set_option linter.unusedVariables false
/-
Model of `Iter.MarshalJSONBuffer`, `Array.MarshalJSONBuffer`, `Elements.MarshalJSONBuffer`,
`escapeBytes` (`parsed_json.go`, `parsed_array.go`, `parsed_object.go`).
-/
namespace SJ
open Generated

/-- `shouldEscape[b]` -/
@[inline] def shouldEscape (b : UInt8) : Bool := tShouldEscape.getD b.toNat 0 != 0
@[inline] def valToHex (n : UInt8) : UInt8 := (tValToHex.getD n.toNat 0).toUInt8

/-- What `escapeBytes` emits for one source byte. -/
def escapeByte (s : UInt8) : List UInt8 :=
  if !shouldEscape s then [s]
  else if s == 8 then [92, 98]
  else if s == 12 then [92, 102]
  else if s == 10 then [92, 110]
  else if s == 13 then [92, 114]
  else if s == 34 then [92, 34]
  else if s == 9 then [92, 116]
  else if s == 92 then [92, 92]
  else [92, 117, 48, 48, valToHex (s >>> 4), valToHex (s &&& 0xf)]

/-- `escapeBytes(dst, src)` -/
def escapeBytes (dst : Bytes) (src : Bytes) : Bytes :=
  src.foldl (fun acc b => acc ++ (escapeByte b).toArray) dst

def intToAscii (i : Int) : Bytes :=
  if i < 0 then #[45] ++ FloatFmt.natToAscii i.natAbs else FloatFmt.natToAscii i.toNat

def stackNone : UInt8 := 0
def stackArray : UInt8 := 1
def stackObject : UInt8 := 2
def stackRoot : UInt8 := 3

structure MState where
  i : Iter
  stack : Array UInt8
  dst : Bytes

namespace Iter

def quoted (dst sb : Bytes) : Bytes := (escapeBytes (dst.push 34) sb).push 34

/-- Section after the `switch`: peek, advance, emit separator. `none` = leave the write loop. -/
def marshalPost (pj : PJ) (s : MState) : Res (Option MState) := do
  let nt ← s.i.peekNextTag pj
  if nt == tagEnd then .ok none else do
  let (i, _) ← s.i.advanceInto pj
  let top := s.stack.back!
  let dst :=
    if top == stackArray then (if i.t == tagArrayEnd then s.dst else s.dst.push 44)
    else if top == stackObject then (if i.t == tagObjectEnd then s.dst else s.dst.push 44)
    else s.dst
  .ok (some { s with i := i, dst := dst })

/-- One iteration of the write loop. `inl` = continue with the new state, `inr` = loop left with
    this state (the final stack check follows). -/
def marshalStep (pj : PJ) (s : MState) : Res (MState ⊕ MState) := do
  -- key names
  let s ← (if s.stack.back! == stackObject ∧ s.i.t != tagObjectEnd then do
      let sb ← s.i.stringBytes pj
      let dst := ((quoted s.dst sb)).push 58
      let nt ← s.i.peekNextTag pj
      if nt == tagEnd then .error .generic else do
      let (i, _) ← s.i.advanceInto pj
      .ok { s with i := i, dst := dst }
    else .ok s)
  let i := s.i
  let t := i.t
  -- `done` = a complete value has just been written (the `valueDone` flag of the Go code)
  let cont (s : MState) (done : Bool := true) : Res (MState ⊕ MState) := do
    if done ∧ s.stack.size == 1 then .ok (.inr s) else
    match ← marshalPost pj s with
    | none => .ok (.inr s)
    | some s' => .ok (.inl s')
  if t == tagRoot then
    let isOpenRoot : Bool := (i.cur.toNat : Int) > i.off
    if s.stack.size > 1 then
      if isOpenRoot then .error .generic
      else
        let l := s.stack.back!
        if l == stackRoot then do
          let nt ← i.peekNextTag pj
          let dst := if nt != tagEnd then s.dst.push 10 else s.dst
          cont { s with dst := dst, stack := s.stack.pop } false
        else if l == stackNone then .ok (.inr s)
        else .error .generic
    else do
      let i := if isOpenRoot then { i with addNext := 0 } else i
      let (i, _) ← i.advanceInto pj
      .ok (.inl { s with i := i, stack := s.stack.push stackRoot })
  else if t == tagString then do
    let sb ← i.stringBytes pj
    cont { s with dst := quoted s.dst sb }
  else if t == tagInteger then do
    let v ← i.int pj
    cont { s with dst := s.dst ++ intToAscii v }
  else if t == tagUint then do
    let v ← i.uint pj
    cont { s with dst := s.dst ++ FloatFmt.natToAscii v }
  else if t == tagFloat then do
    let v ← i.float pj
    match FloatFmt.appendFloat v with
    | none => .error .generic
    | some b => cont { s with dst := s.dst ++ b }
  else if t == tagNull then cont { s with dst := s.dst ++ "null".toUTF8.data }
  else if t == tagBoolTrue then cont { s with dst := s.dst ++ "true".toUTF8.data }
  else if t == tagBoolFalse then cont { s with dst := s.dst ++ "false".toUTF8.data }
  else if t == tagObjectStart then do
    let (i, _) ← ({ i with addNext := 0 } : Iter).advanceInto pj
    .ok (.inl { i := i, dst := s.dst.push 123, stack := s.stack.push stackObject })
  else if t == tagObjectEnd then
    if s.stack.back! != stackObject then .error .generic
    else cont { s with dst := s.dst.push 125, stack := s.stack.pop }
  else if t == tagArrayStart then do
    let (i, _) ← ({ i with addNext := 0 } : Iter).advanceInto pj
    .ok (.inl { i := i, dst := s.dst.push 91, stack := s.stack.push stackArray })
  else if t == tagArrayEnd then
    if s.stack.back! != stackArray then .error .generic
    else cont { s with dst := s.dst.push 93, stack := s.stack.pop }
  else if t == tagEnd then do
    let nt ← i.peekNextTag pj
    if nt == tagEnd then .error .generic else do
    let (i, _) ← i.advanceInto pj
    .ok (.inl { s with i := i })
  else cont s false

def marshalLoop (pj : PJ) (s : MState) : (fuel : Nat) → Res MState
  | 0 => .diverge
  | fuel + 1 => do
    match ← marshalStep pj s with
    | .inl s' => marshalLoop pj s' fuel
    | .inr s' => .ok s'

/-- `i.MarshalJSONBuffer(dst)` -/
def marshalBuf (pj : PJ) (i : Iter) (dst : Bytes) : Res Bytes := do
  let s ← marshalLoop pj { i := i, stack := #[stackNone], dst := dst } (fuelOf pj)
  if s.stack.size > 1 then .error .generic else .ok s.dst

def marshal (pj : PJ) (i : Iter) : Res Bytes := marshalBuf pj i #[]

end Iter

namespace View

/-- `a.MarshalJSONBuffer(dst)` loop -/
def arrMarshalLoop (pj : PJ) (i : Iter) (dst : Bytes) : (fuel : Nat) → Res (Iter × Bytes)
  | 0 => .diverge
  | fuel + 1 => do
    let nt0 ← i.peekNextTag pj
    if nt0 == tagArrayEnd then .ok (i, dst) else do
    let (i, elem, t) ← i.advanceIter pj default
    if t == typeNone then .ok (i, dst) else do
    let dst ← elem.marshalBuf pj dst
    let nt ← i.peekNextTag pj
    if nt == tagArrayEnd then .ok (i, dst)
    else arrMarshalLoop pj i (dst.push 44) fuel

def arrMarshal (pj : PJ) (a : View) : Res Bytes := do
  let (i, dst) ← arrMarshalLoop pj a.iter #[91] (fuelOf pj)
  let nt ← i.peekNextTag pj
  if nt != tagArrayEnd then .error .generic else .ok (dst.push 93)

/-- `Elements.MarshalJSONBuffer` -/
def elemsMarshal (pj : PJ) (es : Array Elem) : Res Bytes := do
  let mut dst : Bytes := #[123]
  for h : k in [0:es.size] do
    let e := es[k]
    dst := (Iter.quoted dst e.name).push 58
    dst ← e.iter.marshalBuf pj dst
    if k + 1 < es.size then dst := dst.push 44
  .ok (dst.push 125)

end View
end SJ
