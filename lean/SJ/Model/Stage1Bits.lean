import SJ.Model.Stage1
import SJ.Generated.AsmScalar
set_option linter.unusedVariables false
/-
The bit-parallel stage-1 block function, assembled from the scalar fragments regenerated from the
assembly (`SJ.Generated.oddBackslash`, `quoteTailAvx2/512`, `finalizeAvx2/512`) and the *lane contract*
of the vector instructions: bit `i` of a compare mask is the predicate on byte `i` of the block.
-/
namespace SJ
open Generated

/-- bit `i` (i < 64) is `f i` -/
def ofBits (f : Nat → Bool) : BitVec 64 :=
  (List.range 64).foldl (fun acc i => if f i then acc ||| (1#64 <<< i) else acc) 0#64

/-- lane contract of `VPCMPEQB`/`VPCMPGTB` + `VPMOVMSKB` (or a K-register compare): the predicate per byte -/
def laneMask (p : UInt8 → Bool) (blk : Bytes) : BitVec 64 := ofBits (fun i => p (blk.getD i 0x20))

/-- `VPCLMULQDQ $0` by the all-ones vector, low 64 bits: bit i = x₀ ⊕ … ⊕ xᵢ -/
def prefixXor (x : BitVec 64) : BitVec 64 :=
  let p := x ^^^ (x <<< 1)
  let p := p ^^^ (p <<< 2)
  let p := p ^^^ (p <<< 4)
  let p := p ^^^ (p <<< 8)
  let p := p ^^^ (p <<< 16)
  p ^^^ (p <<< 32)

structure Carry where
  prevOdd     : BitVec 64 := 0
  prevInQuote : BitVec 64 := 0
  errMask     : BitVec 64 := 0
  prevPseudo  : BitVec 64 := 1
  deriving DecidableEq, Repr, Inhabited

structure Kern where
  oddEnds : BitVec 64
  prevOdd : BitVec 64
  quoteMask : BitVec 64
  quoteBits : BitVec 64
  errMask : BitVec 64
  prevInQuote : BitVec 64
  whitespace : BitVec 64
  structurals : BitVec 64

/-- the individual kernels of one family on one block -/
def kernels (avx512 : Bool) (blk : Bytes) (prevOdd prevInQuote errMask : BitVec 64) : Kern :=
  let bs := laneMask isBackslashByte blk
  let (oddEnds, prevOdd') := oddBackslash bs prevOdd
  let q := laneMask isQuoteByte blk
  let c := laneMask isCtrlByte blk
  let (qm, qb, err', pq') :=
    if avx512 then quoteTailAvx512 prefixXor q c oddEnds prevInQuote errMask
    else quoteTailAvx2 prefixXor q c oddEnds prevInQuote errMask
  { oddEnds := oddEnds, prevOdd := prevOdd', quoteMask := qm, quoteBits := qb, errMask := err', prevInQuote := pq',
    whitespace := laneMask isWsByte blk, structurals := laneMask isStructByte blk }

/-- one 64-byte block: structural mask and the carried state -/
def blockStep (avx512 nd : Bool) (blk : Bytes) (c : Carry) : BitVec 64 × Carry :=
  let k := kernels avx512 blk c.prevOdd c.prevInQuote c.errMask
  let (st, pp') :=
    if avx512 then finalizeAvx512 k.structurals k.whitespace k.quoteMask k.quoteBits c.prevPseudo
    else finalizeAvx2 k.structurals k.whitespace k.quoteMask k.quoteBits c.prevPseudo
  let st := if nd then st ||| (laneMask isNewlineByte blk &&& ~~~ k.quoteMask) else st
  (st, { prevOdd := k.prevOdd, prevInQuote := k.prevInQuote, errMask := k.errMask, prevPseudo := pp' })

/-- the whole message block by block (tail padded with 0x20): indices and final carry -/
def blocksScan (avx512 nd : Bool) (msg : Bytes) : Array Nat × Carry := Id.run do
  let mut c : Carry := {}
  let mut out : Array Nat := #[]
  let nblk := (msg.size + 63) / 64
  for b in [0:nblk] do
    let blk := msg.extract (64 * b) (64 * b + 64)
    let (st, c') := blockStep avx512 nd blk c
    c := c'
    for i in [0:64] do
      if st.getLsbD i then out := out.push (64 * b + i)
  return (out, c)

end SJ
