import SJ.Model.Stage2
import SJ.Generated.GoFacts
set_option linter.unusedVariables false
/-
Model of what survives in a reused `ParsedJson` (its `internalParsedJson`) from one call to the next, and of
what the entry points (`newInternalParsedJson`, `parseMessage`, `initialize`) do to it before the two stages run.
Which fields are re-assigned on entry is NOT written by hand: it is read from the assignments the extractor finds
in the source (`Generated.parseAssignments`).
-/
namespace SJ.Reuse
open SJ SJ.Generated

/-- an item travelling through `indexChans`: an index buffer or the terminator (`index == -1`) -/
inductive Item where
  | buf (k : Nat)
  | term
  deriving DecidableEq, Repr

/-- The per-call parser object as a later call finds it (every field a call can read). -/
structure Carry where
  tape        : Array UInt64 := #[]
  strings     : Bytes := #[]
  message     : Bytes := #[]
  scope       : List UInt64 := []          -- containingScopeOffset
  ixIndex     : Int := 0                   -- indexesChan.index
  ixLength    : Nat := 0                   -- indexesChan.length
  queue       : List Item := []            -- contents of the channel indexChans
  bufOffset   : Nat := 0                   -- buffersOffset
  nd          : Bool := false
  copyStrings : Bool := true
  isvalid     : Bool := false
  deriving Repr

/-- is `pj.<field>` assigned (as a whole, or truncated / re-made) by one of the entry points? -/
def assigned (fn field : String) : Bool := parseAssignments.contains (fn ++ ":pj." ++ field)

/-- State in which the stages start, given what the previous calls left behind (`c`) and this call's arguments.
    A field is reset iff the source assigns it on entry. -/
def enter (c : Carry) (msg : Bytes) (nd copy : Bool) : Carry :=
  { tape := if assigned "internalParsedJson.initialize" "Tape" then #[] else c.tape
    strings := if assigned "internalParsedJson.initialize" "Strings.B" ∧ assigned "internalParsedJson.initialize" "Strings" then #[] else c.strings
    message := if assigned "internalParsedJson.parseMessage" "Message" then trimSpace msg else c.message
    scope := if assigned "internalParsedJson.initialize" "containingScopeOffset" then [] else c.scope
    ixIndex := if assigned "internalParsedJson.initialize" "indexesChan" then 0 else c.ixIndex
    ixLength := if assigned "internalParsedJson.initialize" "indexesChan" then 0 else c.ixLength
    queue := c.queue                                  -- the channel object is kept; see `Drain`
    bufOffset := if assigned "internalParsedJson.parseMessage" "buffersOffset" then 2^64 - 1 else c.bufOffset
    nd := if assigned "internalParsedJson.parseMessage" "ndjson" then nd else c.nd
    copyStrings := if assigned "newInternalParsedJson" "copyStrings" then copy else c.copyStrings
    isvalid := c.isvalid }

/-- the machine's start state when the object is entered in state `e`: `unifiedMachine` appends to whatever
    `Tape`, `Strings.B` and `containingScopeOffset` hold -/
def initFrom (e : Carry) : M :=
  let m : M := { st := .rootStart, tape := e.tape, strings := e.strings, stack := e.scope }
  (m.push cretAddressStartConst).writeTape 0 114

-- Draining --------------------------------------------------------------------------------------------------

/-- `for idx := range pj.indexChans { if idx.index == -1 { break } }` on a queue whose producer has finished -/
def drainRange : List Item → List Item
  | [] => []
  | .term :: r => r
  | .buf _ :: r => drainRange r

/-- `for { select { case idx := <-pj.indexChans: if idx.index == -1 { return } default: return } }` -/
def drainSelect : List Item → List Item
  | [] => []
  | .term :: r => r
  | .buf _ :: r => drainSelect r

/-- what stage 1 has put into the channel when it returns on the synchronous path: the buffers it filled, then
    the terminator (also when it fails) -/
def produced (n : Nat) : List Item := (List.range n).map .buf ++ [.term]

/-- The synchronous path of `parseMessage` (inputs ≤ 8 KiB): stage 1 runs to completion, then either the drain after a
    stage-1 failure, or stage 2 takes `taken` items (it stops early when it fails) followed by the non-blocking
    drain on failure; what is left in the channel. -/
def syncLeftover (n : Nat) (stage1ok stage2ok : Bool) (taken : Nat) : List Item :=
  let q := produced n
  if !stage1ok then drainRange q
  else if stage2ok then q.drop (n + 1)          -- success: stage 2 consumed everything up to and including the terminator
  else drainSelect (q.drop taken)

end SJ.Reuse
