/-
Joins — the join discipline of `Serializer.Deserialize` (C15, C20).

`decBlock` may start a goroutine that writes the destination and counts it on a WaitGroup of its caller.  Deserialize may
return only when every WaitGroup that may carry such a goroutine is joined: by an explicit `X.Wait()` since the last
start, or by a `defer X.Wait()` registered earlier (deferred calls run before the function returns to its caller).
The extractor prints the events of the two functions in source order (`Generated/GoJoins.lean`); this file says what the
lists have to satisfy and proves what the executable check means.

Source order is a sound stand-in for control flow here: Deserialize is a straight line of statements with early
returns (an `if` either returns or falls through), its only loops contain no start (the printer refuses one that does),
so the events in front of a return in the list are a superset of the events executed before it — more starts pending,
and a deferred or explicit join that the list counts is one the printer found at the top level or in a branch that was
taken… the latter only for `wait`; see `run` — explicit waits inside conditionals are therefore not credited.
-/
namespace SJ.Joins

inductive Ev
  | start (wg : String)
  | deferWait (wg : String)
  | wait (wg : String)
  | ret
  deriving DecidableEq, Repr

inductive DEv
  | go | retErr | retNil
  deriving DecidableEq, Repr

/-- on one path through decBlock: once a goroutine is started no error is returned (so an error from decBlock means that
    this call started nothing) -/
def pathOK : List DEv → Bool
  | [] => true
  | .go :: rest => !rest.contains .retErr && pathOK rest
  | _ :: rest => pathOK rest

structure JS where
  pending : List String    -- WaitGroups with a goroutine possibly running
  deferred : List String   -- WaitGroups whose join is registered with defer
  deriving Repr

/-- `none`: a return with a goroutine possibly running and no join registered for it -/
def step (s : JS) : Ev → Option JS
  | .start w => some { s with pending := w :: s.pending }
  | .deferWait w => some { s with deferred := w :: s.deferred }
  | .wait w => some { s with pending := s.pending.filter (· != w) }
  | .ret => if s.pending.all (fun w => s.deferred.contains w) then some s else none

def run (s : JS) : List Ev → Option JS
  | [] => some s
  | e :: es => (step s e).bind fun s' => run s' es

def joinsOK (evs : List Ev) : Bool := (run ⟨[], []⟩ evs).isSome

/-- `w` has a start in `evs` that no later `wait w` in `evs` follows -/
def Unjoined (evs : List Ev) (w : String) : Prop :=
  ∃ a b, evs = a ++ .start w :: b ∧ Ev.wait w ∉ b

/-- a `defer w.Wait()` occurs in `evs` -/
def Deferred (evs : List Ev) (w : String) : Prop := Ev.deferWait w ∈ evs

theorem run_append (s : JS) (a b : List Ev) : run s (a ++ b) = (run s a).bind fun s' => run s' b := by
  induction a generalizing s with
  | nil => simp [run]
  | cons e es ih =>
    simp only [List.cons_append, run]
    cases step s e with
    | none => simp
    | some s' => simp [ih]

/-- what the state records after a successful run -/
theorem run_spec (s s' : JS) (evs : List Ev) (h : run s evs = some s') :
    (∀ w, w ∈ s'.deferred ↔ (w ∈ s.deferred ∨ Deferred evs w)) ∧
    (∀ w, (w ∈ s.pending ∧ Ev.wait w ∉ evs) ∨ Unjoined evs w → w ∈ s'.pending) := by
  induction evs generalizing s with
  | nil =>
    simp only [run, Option.some.injEq] at h; subst h
    refine ⟨fun w => by simp [Deferred], fun w hw => ?_⟩
    rcases hw with hw | ⟨a, b, hab, _⟩
    · exact hw.1
    · simp at hab
  | cons e es ih =>
    simp only [run] at h
    cases hs : step s e with
    | none => simp [hs] at h
    | some s1 =>
      simp only [hs, Option.bind_some] at h
      obtain ⟨ihd, ihp⟩ := ih s1 h
      have hdef : ∀ w, w ∈ s1.deferred ↔ (w ∈ s.deferred ∨ e = .deferWait w) := by
        intro w
        cases e with
        | start x => simp [step] at hs; subst hs; simp
        | deferWait x =>
          simp [step] at hs; subst hs
          simp only [List.mem_cons, Ev.deferWait.injEq]
          constructor
          · rintro (h | h)
            · exact Or.inr h.symm
            · exact Or.inl h
          · rintro (h | h)
            · exact Or.inr h
            · exact Or.inl h.symm
        | wait x => simp [step] at hs; subst hs; simp
        | ret =>
          simp only [step] at hs
          split at hs
          · simp at hs; subst hs; simp
          · simp at hs
      refine ⟨fun w => ?_, fun w hw => ?_⟩
      · rw [ihd w, hdef w]
        simp only [Deferred, List.mem_cons]
        constructor
        · rintro ((h | h) | h)
          · exact Or.inl h
          · exact Or.inr (Or.inl h.symm)
          · exact Or.inr (Or.inr h)
        · rintro (h | h | h)
          · exact Or.inl (Or.inl h)
          · exact Or.inl (Or.inr h.symm)
          · exact Or.inr h
      · apply ihp w
        rcases hw with ⟨hp, hnw⟩ | ⟨a, b, hab, hnb⟩
        · left
          simp only [List.mem_cons, not_or] at hnw
          refine ⟨?_, hnw.2⟩
          cases e with
          | start x => simp [step] at hs; subst hs; simp [hp]
          | deferWait x => simp [step] at hs; subst hs; exact hp
          | wait x =>
            simp [step] at hs; subst hs
            simp only [List.mem_filter, hp, true_and]
            have : w ≠ x := fun hx => hnw.1 (by rw [hx])
            simpa using this
          | ret =>
            simp only [step] at hs
            split at hs
            · simp at hs; subst hs; exact hp
            · simp at hs
        · cases a with
          | nil =>
            simp only [List.nil_append, List.cons.injEq] at hab
            obtain ⟨rfl, rfl⟩ := hab
            left
            simp [step] at hs; subst hs
            exact ⟨by simp, hnb⟩
          | cons a0 as =>
            simp only [List.cons_append, List.cons.injEq] at hab
            right
            exact ⟨as, b, hab.2, hnb⟩

/-- **What the check means.** If the event list passes, then at every return in it every WaitGroup with a start that
    no later explicit wait has followed has its join registered by an earlier `defer`. -/
theorem joinsOK_sound (evs : List Ev) (h : joinsOK evs = true) (pre rest : List Ev) (hsplit : evs = pre ++ .ret :: rest)
    (w : String) (hu : Unjoined pre w) : Deferred pre w := by
  simp only [joinsOK, Option.isSome_iff_exists] at h
  obtain ⟨sf, hsf⟩ := h
  rw [hsplit, run_append] at hsf
  cases hp : run ⟨[], []⟩ pre with
  | none => simp [hp] at hsf
  | some s1 =>
    simp only [hp, Option.bind_some, run] at hsf
    obtain ⟨hd, hpend⟩ := run_spec _ _ _ hp
    have hw := hpend w (Or.inr hu)
    cases hst : step s1 .ret with
    | none => simp [hst] at hsf
    | some s2 =>
      simp only [step] at hst
      split at hst
      · rename_i hall
        have := List.all_eq_true.mp hall w hw
        have hmem : w ∈ s1.deferred := by simpa using this
        rcases (hd w).mp hmem with h0 | h0
        · simp at h0
        · exact h0
      · simp at hst

/-- an error from decBlock means no goroutine of this call: on a path that passes, a `go` is never followed by an error return -/
theorem pathOK_sound (p : List DEv) (h : pathOK p = true) (a b : List DEv) (hs : p = a ++ .go :: b) : DEv.retErr ∉ b := by
  induction a generalizing p with
  | nil =>
    subst hs
    simp only [List.nil_append, pathOK, Bool.and_eq_true, Bool.not_eq_true'] at h
    intro hm
    have := h.1
    simp [hm] at this
  | cons x xs ih =>
    subst hs
    cases x with
    | go =>
      simp only [List.cons_append, pathOK, Bool.and_eq_true] at h
      exact ih _ h.2 rfl
    | retErr => simp only [List.cons_append, pathOK] at h; exact ih _ h rfl
    | retNil => simp only [List.cons_append, pathOK] at h; exact ih _ h rfl

end SJ.Joins
