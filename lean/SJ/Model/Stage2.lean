import SJ.Model.Stage1
import SJ.Model.Number
import SJ.Model.StringDec
set_option linter.unusedVariables false
/-
Model of stage 2 (`unifiedMachine`, `stage2_build_tape_amd64.go`) and of the public entry points
`Parse` / `ParseND` (`simdjson_amd64.go`, `parse_json_amd64.go`) for the outcome they return.
The goto machine is a state machine that consumes exactly one structural index per step.
-/
namespace SJ
open Generated

inductive St where
  | rootStart | objBegin | objKeyColon | objValue | objContinue | objKeyAfterComma
  | arrBegin | arrValue | arrContinue | startContinue | ndSkip
  deriving DecidableEq, Repr, Inhabited

structure M where
  st      : St := .rootStart
  tape    : Array UInt64 := #[]
  strings : Bytes := #[]
  stack   : List UInt64 := []     -- containingScopeOffset, top first
  deriving Inhabited

structure Cfg where
  copyStrings : Bool := true
  deriving Repr, Inhabited, DecidableEq

namespace M

def loc (m : M) : UInt64 := UInt64.ofNat m.tape.size
def writeTape (m : M) (val : UInt64) (c : UInt8) : M := { m with tape := m.tape.push (mkWord c val) }
def push (m : M) (ret : Nat) : M :=
  { m with stack := ((m.loc <<< (UInt64.ofNat cretAddressShift)) ||| UInt64.ofNat ret) :: m.stack }
def annotate (m : M) (at_ : UInt64) (val : UInt64) : Option M :=
  if h : at_.toNat < m.tape.size then some { m with tape := m.tape.set at_.toNat (m.tape[at_.toNat] ||| val) h }
  else none

/-- `parseString(pj, idx, maxStringSize, copyStrings)` -/
def parseString (m : M) (cfg : Cfg) (buf : Bytes) (idx : Nat) (maxStringSize : Nat) : Option M :=
  match decodeString buf (idx + 1) maxStringSize with
  | none => none
  | some (dec, close) =>
    let srcLen := close - (idx + 1)
    let needCopy := cfg.copyStrings || srcLen != dec.size
    if !needCopy then
      some { (m.writeTape (UInt64.ofNat (idx + 1)) tagString) with tape := (m.writeTape (UInt64.ofNat (idx + 1)) tagString).tape.push (UInt64.ofNat srcLen) }
    else
      let start := m.strings.size
      let m1 := m.writeTape (wSTRINGBUFBIT + UInt64.ofNat start) tagString
      some { m1 with tape := m1.tape.push (UInt64.ofNat dec.size), strings := m.strings ++ dec }

/-- Scalar value cases shared by the object-value and array-value states. `none` = fail;
    `some (m, true)` = a container was opened (next state given by the caller). -/
def value (m : M) (cfg : Cfg) (buf : Bytes) (idx peek : Nat) (ret : Nat) : Option (M × Option St) :=
  let c := buf.getD idx 0
  if c == 34 then (m.parseString cfg buf idx peek).map (·, none)
  else if c == 116 then if isValidTrueAtom buf idx then some (m.writeTape 0 116, none) else none
  else if c == 102 then if isValidFalseAtom buf idx then some (m.writeTape 0 102, none) else none
  else if c == 110 then if isValidNullAtom buf idx then some (m.writeTape 0 110, none) else none
  else if c == 45 ∨ (48 ≤ c ∧ c ≤ 57) then
    match parseNumber buf idx with
    | some (tg, v) => some ({ m with tape := (m.tape.push tg).push v }, none)
    | none => none
  else if c == 123 then some ((m.push ret).writeTape 0 123, some .objBegin)
  else if c == 91 then some ((m.push ret).writeTape 0 91, some .arrBegin)
  else none

/-- `scopeEnd` -/
def scopeEnd (m : M) (c : UInt8) : Option M :=
  match m.stack with
  | [] => none
  | offset :: rest =>
    let at_ := offset >>> (UInt64.ofNat cretAddressShift)
    let m1 := { m with stack := rest }.writeTape at_ c
    match m1.annotate at_ m1.loc with
    | none => none
    | some m2 =>
      let r := (offset &&& 3).toNat
      some { m2 with st := if r == cretAddressArrayConst then .arrContinue
                            else if r == cretAddressObjectConst then .objContinue else .startContinue }

/-- close the current root and open a new one (ND mode) -/
def reopenRoot (m : M) : Option M :=
  match m.stack with
  | [] => none
  | offset :: rest =>
    let at_ := offset >>> (UInt64.ofNat cretAddressShift)
    match ({ m with stack := rest }).annotate at_ (m.loc + UInt64.ofNat caddOneForRoot) with
    | none => none
    | some m1 =>
      let m2 := m1.writeTape at_ 114
      some ((m2.push cretAddressStartConst).writeTape 0 114)

/-- `continueRoot` dispatch -/
def rootDispatch (m : M) (c : UInt8) : Option M :=
  if c == 123 then some { ((m.push cretAddressStartConst).writeTape 0 123) with st := .objBegin }
  else if c == 91 then some { ((m.push cretAddressStartConst).writeTape 0 91) with st := .arrBegin }
  else none

/-- One structural index. `peek` = `peekSize` (distance to the next index of the same buffer, 0 if none). -/
def step (m : M) (cfg : Cfg) (buf : Bytes) (idx peek : Nat) : Option M :=
  let c := buf.getD idx 0
  match m.st with
  | .rootStart => m.rootDispatch c
  | .objBegin =>
    if c == 34 then (m.parseString cfg buf idx peek).map ({ · with st := .objKeyColon })
    else if c == 125 then m.scopeEnd c
    else none
  | .objKeyColon => if c == 58 then some { m with st := .objValue } else none
  | .objValue =>
    match m.value cfg buf idx peek cretAddressObjectConst with
    | none => none
    | some (m', none) => some { m' with st := .objContinue }
    | some (m', some s) => some { m' with st := s }
  | .objContinue =>
    if c == 44 then some { m with st := .objKeyAfterComma }
    else if c == 125 then m.scopeEnd c
    else none
  | .objKeyAfterComma =>
    if c == 34 then (m.parseString cfg buf idx peek).map ({ · with st := .objKeyColon }) else none
  | .arrBegin =>
    if c == 93 then m.scopeEnd c
    else match m.value cfg buf idx peek cretAddressArrayConst with
      | none => none
      | some (m', none) => some { m' with st := .arrContinue }
      | some (m', some s) => some { m' with st := s }
  | .arrValue =>
    match m.value cfg buf idx peek cretAddressArrayConst with
    | none => none
    | some (m', none) => some { m' with st := .arrContinue }
    | some (m', some s) => some { m' with st := s }
  | .arrContinue =>
    if c == 44 then some { m with st := .arrValue }
    else if c == 93 then m.scopeEnd c
    else none
  | .startContinue => if c == 10 then some { m with st := .ndSkip } else none
  | .ndSkip =>
    if c == 10 then some m
    else match m.reopenRoot with
      | none => none
      | some m' => m'.rootDispatch c

/-- `succeed:` -/
def finish (m : M) : Option M :=
  match m.stack with
  | [offset] =>
    let at_ := offset >>> (UInt64.ofNat cretAddressShift)
    match ({ m with stack := [] }).annotate at_ (m.loc + UInt64.ofNat caddOneForRoot) with
    | none => none
    | some m1 => some (m1.writeTape at_ 114)
  | _ => none

/-- START STATE -/
def init : M := (({} : M).push cretAddressStartConst).writeTape 0 114

end M

/-- The (index, `peekSize`) pairs of one index buffer: the distance to the next index of the same buffer,
    0 for its last entry. -/
def pairsOfBuf (b : Array Nat) : List (Nat × Nat) :=
  (List.range b.size).map fun k => (b.getD k 0, if k + 1 < b.size then b.getD (k + 1) 0 - b.getD k 0 else 0)

/-- all pairs of a sequence of index buffers, in order -/
def pairsOf (bufs : Array (Array Nat)) : List (Nat × Nat) := (bufs.toList.map pairsOfBuf).flatten

/-- Run the machine over (index, peek) pairs; `none` = `goto fail`. -/
def runM (cfg : Cfg) (buf : Bytes) : M → List (Nat × Nat) → Option M
  | m, [] => some m
  | m, (idx, peek) :: r =>
    match m.step cfg buf idx peek with
    | none => none
    | some m' => runM cfg buf m' r

/-- Run the machine over the index buffers. -/
def stage2 (cfg : Cfg) (buf : Bytes) (bufs : Array (Array Nat)) : Option M :=
  match runM cfg buf M.init (pairsOf bufs) with
  | none => none
  | some m => m.finish

/-- `Parse` / `ParseND` outcome: the exported fields on success. -/
def parseAny (cfg : Cfg) (nd : Bool) (input : Bytes) : Res PJ :=
  let msg := trimSpace input
  match stage1 nd msg with
  | none => .error .generic
  | some idx =>
    match stage2 cfg msg (rounds msg idx) with
    | none => .error .generic
    | some m => .ok { tape := m.tape, strings := m.strings, msg := msg }

def parse (cfg : Cfg) (input : Bytes) : Res PJ := parseAny cfg false input
def parseND (cfg : Cfg) (input : Bytes) : Res PJ := parseAny cfg true input

end SJ
