import SJ.Model.Walk
set_option linter.unusedVariables false
/-
The documented tape format as an executable checker/decoder (`decodeTape`): root pairs, containers
with forward pointer one past the end tag and back pointer to the start, proper nesting, strings with
in-range buffer reference, numbers with their value word, NOP runs whose skip counts stay inside
their scope.  `wfCheck pj = (decodeTape pj).isSome`.  This is the abstraction function used by the
properties that speak about "the document a tape denotes".
-/
namespace SJ
open Generated

/-- first live position at or after `i`, staying below `e`; `none` if a skip is zero or overshoots -/
def skipNops (tape : Array UInt64) (i e : Nat) : (fuel : Nat) → Option Nat
  | 0 => none
  | fuel + 1 =>
    if i > e then none
    else if i == e then some i
    else
      let w := tape.getD i 0
      if tagOf w == tagNop then
        let s := (payloadOf w).toNat
        if s == 0 then none else skipNops tape (i + s) e fuel
      else some i

mutual
/-- decode the value whose first word is at `i`, within `[i, e)`; returns the value and the next position -/
def decValue (pj : PJ) (i e : Nat) (fuel : Nat) : Option (OVal × Nat) :=
  match fuel with
  | 0 => none
  | fuel + 1 =>
    if i >= e then none else
    let w := pj.tape.getD i 0
    let t := tagOf w
    let pl := payloadOf w
    if t == tagNull then some (.null, i + 1)
    else if t == tagBoolTrue then some (.bool true, i + 1)
    else if t == tagBoolFalse then some (.bool false, i + 1)
    else if t == tagInteger then
      if i + 1 >= e then none else some (.int (toInt64 (pj.tape.getD (i+1) 0)), i + 2)
    else if t == tagUint then
      if i + 1 >= e then none else some (.uint (pj.tape.getD (i+1) 0).toNat, i + 2)
    else if t == tagFloat then
      if i + 1 >= e then none else some (.float (pj.tape.getD (i+1) 0) pl, i + 2)
    else if t == tagString then
      if i + 1 >= e then none else
      match stringByteAt pj pl (pj.tape.getD (i+1) 0) with
      | .ok s => some (.str s, i + 2)
      | _ => none
    else if t == tagObjectStart ∨ t == tagArrayStart then
      let c := pl.toNat
      if c ≤ i + 1 ∨ c > e then none else
      let cw := pj.tape.getD (c - 1) 0
      if tagOf cw != openToClose t ∨ (payloadOf cw).toNat != i then none else
      if t == tagObjectStart then
        match decMembers pj (i + 1) (c - 1) [] fuel with
        | some ms => some (.obj ms, c)
        | none => none
      else
        match decElems pj (i + 1) (c - 1) [] fuel with
        | some es => some (.arr es, c)
        | none => none
    else none
termination_by structural fuel

def decElems (pj : PJ) (i e : Nat) (acc : List OVal) (fuel : Nat) : Option (List OVal) :=
  match fuel with
  | 0 => none
  | fuel + 1 =>
    match skipNops pj.tape i e (e + 1 - i) with
    | none => none
    | some p =>
      if p == e then some acc.reverse else
      match decValue pj p e fuel with
      | none => none
      | some (v, n) => decElems pj n e (v :: acc) fuel
termination_by structural fuel

def decMembers (pj : PJ) (i e : Nat) (acc : List (Bytes × OVal)) (fuel : Nat) : Option (List (Bytes × OVal)) :=
  match fuel with
  | 0 => none
  | fuel + 1 =>
    match skipNops pj.tape i e (e + 1 - i) with
    | none => none
    | some p =>
      if p == e then some acc.reverse else
      let w := pj.tape.getD p 0
      if tagOf w != tagString ∨ p + 1 >= e then none else
      match stringByteAt pj (payloadOf w) (pj.tape.getD (p+1) 0) with
      | .ok k =>
        match skipNops pj.tape (p + 2) e (e + 1 - (p + 2)) with
        | none => none
        | some q =>
          match decValue pj q e fuel with
          | none => none
          | some (v, n) => decMembers pj n e ((k, v) :: acc) fuel
      | _ => none
termination_by structural fuel
end

/-- the root pairs -/
def decRoots (pj : PJ) (i : Nat) (acc : List OVal) : (fuel : Nat) → Option (List OVal)
  | 0 => none
  | fuel + 1 =>
    let n := pj.tape.size
    match skipNops pj.tape i n (n + 1 - i) with
    | none => none
    | some p =>
      if p == n then some acc.reverse else
      let w := pj.tape.getD p 0
      if tagOf w != tagRoot then none else
      let e := (payloadOf w).toNat
      if e ≤ p + 1 ∨ e > n then none else
      let cw := pj.tape.getD (e - 1) 0
      if tagOf cw != tagRoot ∨ (payloadOf cw).toNat != p then none else
      match skipNops pj.tape (p + 1) (e - 1) (e - p) with
      | none => none
      | some q =>
        if q == e - 1 then none else
        match decValue pj q (e - 1) (n + 1) with
        | none => none
        | some (v, nx) =>
          match skipNops pj.tape nx (e - 1) (e + 1 - nx) with
          | some r => if r == e - 1 then decRoots pj e (v :: acc) fuel else none
          | none => none

/-- the document a tape denotes, if it obeys the format -/
def decodeTape (pj : PJ) : Option (List OVal) := decRoots pj 0 [] (pj.tape.size + 1)

def wfCheck (pj : PJ) : Bool := (decodeTape pj).isSome

end SJ
