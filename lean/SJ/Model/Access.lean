import SJ.Model.Iter
import SJ.Spec.F64
set_option linter.unusedVariables false
/-
Numeric accessors and in-place edits of `Iter` (`parsed_json.go`).
-/
namespace SJ
open Generated

namespace Iter

/-- `Float()`: the float64 bit pattern. -/
def float (pj : PJ) (i : Iter) : Res UInt64 :=
  if i.t == tagFloat then valWord pj i
  else if i.t == tagInteger then do let v ← valWord pj i; .ok (F64.ofInt (toInt64 v))
  else if i.t == tagUint then do let v ← valWord pj i; .ok (F64.ofNat v.toNat)
  else .error .generic

/-- `FloatFlags()`: bits and flags. -/
def floatFlags (pj : PJ) (i : Iter) : Res (UInt64 × UInt64) :=
  if i.t == tagFloat then do let v ← valWord pj i; .ok (v, i.cur)
  else do let v ← float pj i; .ok (v, 0)

/-- `int64(v)` for a float64 on amd64 (CVTTSD2SQ): truncation; the "integer indefinite" value for
    NaN and out-of-range inputs. -/
def cvtFloatToInt64 (b : UInt64) : Int :=
  match F64.trunc? b with
  | some z => if -(2^63 : Int) ≤ z ∧ z < 2^63 then z else -(2^63 : Int)
  | none => -(2^63 : Int)

/-- `uint64(v)` for a float64 as compiled for amd64. -/
def cvtFloatToUint64 (b : UInt64) : Nat :=
  if F64.ltInt b (2^63) then (ofInt64 (cvtFloatToInt64 b)).toNat
  else
    -- int64(v - 2^63) | 1<<63; out of range and NaN convert to the "indefinite" 2^63
    match F64.trunc? b with
    | some z => if (2^63 : Int) ≤ z ∧ z < 2^64 then z.toNat else 2^63
    | none => 2^63

/-- `Int()` -/
def int (pj : PJ) (i : Iter) : Res Int :=
  if i.t == tagFloat then do
    let v ← valWord pj i
    if F64.geInt v (2^63) then .error .generic
    else if F64.ltInt v (-(2^63)) then .error .generic
    else .ok (cvtFloatToInt64 v)
  else if i.t == tagInteger then do let v ← valWord pj i; .ok (toInt64 v)
  else if i.t == tagUint then do
    let v ← valWord pj i
    if v.toNat > 2^63 - 1 then .error .generic else .ok (v.toNat : Int)
  else .error .generic

/-- `Uint()` -/
def uint (pj : PJ) (i : Iter) : Res Nat :=
  if i.t == tagFloat then do
    let v ← valWord pj i
    if F64.geInt v (2^64) then .error .generic
    else if F64.ltInt v 0 then .error .generic
    else .ok (cvtFloatToUint64 v)
  else if i.t == tagInteger then do
    let v ← valWord pj i
    if toInt64 v < 0 then .error .generic else .ok v.toNat
  else if i.t == tagUint then do let v ← valWord pj i; .ok v.toNat
  else .error .generic

-- In-place edits ---------------------------------------------------------------------------------

/-- `i.tape.Tape[k] = v`: Go checks the index against the length of the iterator's view, `len(i.tape.Tape)` = `lim`
    (`lim ≤ tape.size` for every view the API makes; the array check of `wr` is kept in addition).  An index in
    `[lim, tape.size)` panics, as in Go. -/
@[inline] def wrV (lim : Nat) (tape : Array UInt64) (k : Nat) (v : UInt64) : Res (Array UInt64) :=
  if k < lim then wr tape k v else .panic

/-- Writes `tape[off-1]` and `tape[off]` (both checked against the view: panics iff `off = 0` or `off ≥ lim`). -/
def set2 (pj : PJ) (i : Iter) (w0 w1 : UInt64) : Res PJ :=
  if i.off = 0 then .panic else do
    let t1 ← wrV i.lim pj.tape (i.off - 1) w0
    let t2 ← wrV i.lim t1 i.off w1
    .ok { pj with tape := t2 }

def setFloat (pj : PJ) (i : Iter) (bits : UInt64) : Res (PJ × Iter) :=
  if inCase (caseOf swSetFloat 0) i.t then do
    let pj' ← set2 pj i (mkWord tagFloat 0) bits
    .ok (pj', { i with t := tagFloat, cur := 0 })
  else .error .generic

def setInt (pj : PJ) (i : Iter) (v : Int) : Res (PJ × Iter) :=
  if inCase (caseOf swSetInt 0) i.t then do
    let pj' ← set2 pj i (mkWord tagInteger 0) (ofInt64 v)
    .ok (pj', { i with t := tagInteger, cur := ofInt64 v })
  else .error .generic

def setUInt (pj : PJ) (i : Iter) (v : UInt64) : Res (PJ × Iter) :=
  if inCase (caseOf swSetUInt 0) i.t then do
    let pj' ← set2 pj i (mkWord tagUint 0) v
    .ok (pj', { i with t := tagUint, cur := v })
  else .error .generic

def setStringBytes (pj : PJ) (i : Iter) (v : Bytes) : Res (PJ × Iter) :=
  if inCase (caseOf swSetStringBytes 0) i.t then do
    let cur := (mkWord tagString wSTRINGBUFBIT) ||| UInt64.ofNat pj.strings.size
    let pj' ← set2 pj i cur (UInt64.ofNat v.size)
    .ok ({ pj' with strings := pj.strings ++ v }, { i with t := tagString, cur := cur })
  else .error .generic

def setBool (pj : PJ) (i : Iter) (v : Bool) : Res (PJ × Iter) :=
  if inCase (caseOf swSetBool 0) i.t then
    if i.off = 0 then .panic else do
      let t := if v then tagBoolTrue else tagBoolFalse
      let tp ← wrV i.lim pj.tape (i.off - 1) (mkWord t 0)
      .ok ({ pj with tape := tp }, { i with t := t, cur := 0 })
  else .error .generic

/-- The NOP fill loop `for j := lo; j < hi; j++ { tape[j] = Nop | (hi - j) }` checked against the whole array only.
    No Go function writes this way (all of them write through a view: `nopFillV`); kept as the reference the proofs
    compare with (`nopFillV_eq_nopFill`: the two agree whenever `hi ≤ lim`). -/
def nopFill (tape : Array UInt64) (lo hi : Nat) : Res (Array UInt64) :=
  if h : lo < hi then do
    let t ← wr tape lo (mkWord tagNop (UInt64.ofNat (hi - lo)))
    nopFill t (lo + 1) hi
  else .ok tape
termination_by hi - lo

/-- The same loop through an iterator's view of length `lim` (`SetNull` on a container, `Array.DeleteElems`,
    `Object.DeleteElems`):
    `for j := lo; j < hi; j++ { i.tape.Tape[j] = Nop | (hi - j) }` panics at the first `j ≥ lim`. -/
def nopFillV (lim : Nat) (tape : Array UInt64) (lo hi : Nat) : Res (Array UInt64) :=
  if h : lo < hi then do
    let t ← wrV lim tape lo (mkWord tagNop (UInt64.ofNat (hi - lo)))
    nopFillV lim t (lo + 1) hi
  else .ok tape
termination_by hi - lo

def setNull (pj : PJ) (i : Iter) : Res (PJ × Iter) :=
  if inCase (caseOf swSetNull 0) i.t then
    if i.off = 0 then .panic else do
      let tp ← wrV i.lim pj.tape (i.off - 1) (mkWord tagNull 0)
      .ok ({ pj with tape := tp }, { i with t := tagNull, cur := 0 })
  else if inCase (caseOf swSetNull 1) i.t then do
    let pj' ← set2 pj i (mkWord tagNull 0) (mkWord tagNop 1)
    .ok (pj', { i with t := tagNull, cur := 0 })
  else if inCase (caseOf swSetNull 2) i.t then
    if i.off = 0 then .panic else do
      let tp ← wrV i.lim pj.tape (i.off - 1) (mkWord tagNull 0)
      let tp ← nopFillV i.lim tp i.off i.cur.toNat
      .ok ({ pj with tape := tp }, { i with addNext := (i.cur.toNat : Int) - i.off, t := tagNull, cur := 0 })
  else .error .generic

end Iter
end SJ
