import SJ.Model.Serialize
import SJ.Generated.GoPools
import SJ.Generated.GoFacts
set_option linter.unusedVariables false
/-
Model of what survives in a reused `Serializer` from one `Serialize` call to the next and of what the entry code of
`Serialize` does to it before the tape loop runs (C15).  Which fields are zeroed / emptied / overwritten is NOT written by
hand: it is read from `Generated.serializerEntryResets`, which the extractor regenerates from the statements in front of
the loop (`Generated.serializerEntry`).
-/
namespace SJ.SerReuse
open SJ SJ.Generated

/-- the fields of a `Serializer` as a later call finds them -/
structure Carry where
  table         : Array Nat := Array.replicate cstringSize 0   -- stringsTable
  stringBuf     : Bytes := #[]
  sMsg          : Bytes := #[]
  tagsBuf       : Bytes := #[]      -- content of the fixed-size scratch buffer
  valuesBuf     : Bytes := #[]
  valuesCompBuf : Bytes := #[]
  tagsCompBuf   : Bytes := #[]
  mode          : Nat := 2          -- compValues/compTags/compStrings/fasterComp: configuration, kept on purpose
  deriving Repr

def treated (field how : String) : Bool :=
  match serializerEntryResets.find? (fun p => p.1 == field) with
  | some (_, hs) => hs.contains how
  | none => false

/-- the state in which the tape loop starts, given what earlier calls left behind -/
def enter (c : Carry) : Carry :=
  { table := if treated "stringsTable" "zeroed" then Array.replicate cstringSize 0 else c.table
    stringBuf := if treated "stringBuf" "emptied" then #[] else c.stringBuf
    sMsg := if treated "sMsg" "emptied" then #[] else c.sMsg
    tagsBuf := c.tagsBuf                       -- only re-sliced: the old content is still there
    valuesBuf := if treated "valuesBuf" "emptied" then #[] else c.valuesBuf
    valuesCompBuf := c.valuesCompBuf           -- handed to encBlock, which starts from `buf[:0]`
    tagsCompBuf := c.tagsCompBuf
    mode := c.mode }

/-- what the tape loop of the model (`serLoop`) starts from: the de-duplication table, the string buffer, and the
    value bytes collected so far; tags are written at `tagsBuf[tagsOff]` with `tagsOff` starting at 0, so the visible
    tag prefix is empty whatever the buffer holds -/
def loopStart (c : Carry) : SerState :=
  { table := c.table, stringBuf := c.stringBuf, tags := #[], values := c.valuesBuf }

end SJ.SerReuse
