import SJ.Model.Access
set_option linter.unusedVariables false
/-
Model of `Object` (`parsed_object.go`), `Array` (`parsed_array.go`), `Iter.Root`, `Iter.Interface`,
`Iter.FindElement`.  Composite loops take a fuel argument; running out of fuel is the outcome
`.diverge` (the Go loop would still be running), never a silent default.
-/
namespace SJ
open Generated

/-- `Object` / `Array`: a restricted view (`lim = len(o.tape.Tape)`) and a read offset. -/
structure View where
  lim : Nat
  off : Nat
  deriving Repr, Inhabited, DecidableEq

/-- `interface{}` values returned by `Interface()`; objects are Go maps (insertion with
    replacement; compared after sorting by key). -/
inductive IVal where
  | null
  | bool (b : Bool)
  | int (i : Int)
  | uint (n : Nat)
  | float (bits : UInt64)
  | str (s : Bytes)
  | arr (l : List IVal)
  | obj (l : List (Bytes × IVal))
  deriving Inhabited

def mapInsert (m : List (Bytes × IVal)) (k : Bytes) (v : IVal) : List (Bytes × IVal) :=
  (m.filter (fun p => p.1 != k)) ++ [(k, v)]

def fuelOf (pj : PJ) : Nat := 2 * pj.tape.size + 16

namespace Iter

/-- `i.Object(dst)` -/
def object (i : Iter) : Res View :=
  if i.t != tagObjectStart then .error .generic
  else
    let e := i.cur.toNat
    if e < i.off then .error .generic
    else if i.lim < e then .error .generic
    else .ok { lim := e, off := i.off }

/-- `i.Array(dst)` -/
def array (i : Iter) : Res View :=
  if i.t != tagArrayStart then .error .generic
  else
    let e := i.cur.toNat
    if i.lim < e then .error .generic
    else .ok { lim := e, off := i.off }

/-- `i.Root(dst)` with a fresh `dst`: returns (type of first element, dst).  The type is
    `dst.AdvanceInto().Type()`, i.e. `Tag.Type()` = `TagToType[tag]` of the tag `AdvanceInto` returned —
    not `Iter.Type()`: there is no bounds test. -/
def root (pj : PJ) (i : Iter) : Res (UInt8 × Iter) :=
  if i.t != tagRoot then .error .generic
  else if i.cur.toNat > i.lim ∨ i.cur == 0 then .error .generic
  else do
    let d : Iter := { i with addNext := 0, lim := i.cur.toNat - 1 }
    let (d', tg) ← d.advanceInto pj
    .ok (tagToType tg, d')

end Iter

namespace View

/-- `a.Iter()` -/
def iter (a : View) : Iter := { lim := a.lim, off := a.off, addNext := 0, cur := 0, t := tagEnd }

/-- `o.NextElementBytes(dst)`; `none` = `(nil, TypeNone, nil)`. -/
def nextElementBytes (pj : PJ) (o : View) : (fuel : Nat) → Res (View × Option (Bytes × Iter × UInt8))
  | 0 => .diverge
  | fuel + 1 =>
    if o.off >= o.lim then .ok (o, none) else do
    let v ← rd pj.tape o.off
    let tg := tagOf v
    if tg == tagString then
      if o.off + 2 >= o.lim then .error .generic else do
      let length ← rd pj.tape (o.off + 1)
      let name ← stringByteAt pj (payloadOf v) length
      let off := o.off + 2
      let v ← rd pj.tape off
      let off := off + 1
      let d0 : Iter := { lim := o.lim, off := off, addNext := 0, cur := payloadOf v, t := tagOf v }
      let elemSize := (d0.calcNext false).addNext
      let d := d0.calcNext true
      let e : Int := (off : Int) + elemSize
      if elemSize < 0 then .error .generic
      else if e > o.lim then .error .generic
      else .ok ({ o with off := e.toNat }, some (name, { d with lim := e.toNat }, tagToType d.t))
    else if tg == tagObjectEnd then .ok (o, none)
    else if tg == tagNop then
      if (payloadOf v).toNat = 0 then .error .generic
      else nextElementBytes pj { o with off := o.off + (payloadOf v).toNat } fuel
    else .error .generic

end View

mutual
/-- `i.Interface()` -/
def Iter.interface (pj : PJ) (i : Iter) : (fuel : Nat) → Res IVal
  | 0 => .diverge
  | fuel + 1 =>
    let ty := tagToType i.t
    if ty == typeUint then do let n ← i.uint pj; .ok (.uint n)
    else if ty == typeInt then do let n ← i.int pj; .ok (.int n)
    else if ty == typeFloat then do let b ← i.float pj; .ok (.float b)
    else if ty == typeNull then .ok .null
    else if ty == typeArray then do let a ← i.array; View.arrInterface pj a.iter [] fuel
    else if ty == typeString then do let s ← i.stringBytes pj; .ok (.str s)
    else if ty == typeObject then do let o ← i.object; let m ← View.objMap pj o [] fuel; .ok (.obj m)
    else if ty == typeBool then .ok (.bool (i.t == tagBoolTrue))
    else if ty == typeRoot then Iter.rootLoop pj i [] fuel
    else if ty == typeNone then do
      let nt ← i.peekNextTag pj
      if nt == tagEnd then .error .generic else do
      let (i', _) ← i.advance pj
      Iter.interface pj i' fuel
    else .error .generic

/-- the `TypeRoot` loop of `Interface` -/
def Iter.rootLoop (pj : PJ) (i : Iter) (acc : List IVal) : (fuel : Nat) → Res IVal
  | 0 => .diverge
  | fuel + 1 => do
    let (typ, obj) ← i.root pj
    if typ == typeNone then .ok (.arr acc.reverse) else do
    let elem ← Iter.interface pj obj fuel
    let acc := elem :: acc
    let (i', ty) ← i.advance pj
    if ty != typeRoot then .ok (.arr acc.reverse)
    else Iter.rootLoop pj i' acc fuel

/-- `a.Interface()` loop: `for i.Advance() != TypeNone { … }` -/
def View.arrInterface (pj : PJ) (i : Iter) (acc : List IVal) : (fuel : Nat) → Res IVal
  | 0 => .diverge
  | fuel + 1 => do
    let (i', ty) ← i.advance pj
    if ty == typeNone then .ok (.arr acc.reverse) else do
    let elem ← Iter.interface pj i' fuel
    View.arrInterface pj i' (elem :: acc) fuel

/-- `o.Map(dst)` loop -/
def View.objMap (pj : PJ) (o : View) (acc : List (Bytes × IVal)) : (fuel : Nat) → Res (List (Bytes × IVal))
  | 0 => .diverge
  | fuel + 1 => do
    let (o', r) ← o.nextElementBytes pj fuel
    match r with
    | none => .ok acc
    | some (name, it, ty) =>
      if ty == typeNone then .ok acc else do   -- `if t == TypeNone { break }`
      let v ← Iter.interface pj it fuel
      View.objMap pj o' (mapInsert acc name v) fuel
end

namespace View

structure Elem where
  name : Bytes
  type : UInt8
  iter : Iter
  deriving Inhabited

/-- `o.Parse(dst)`: the `Elements` slice in order (the `Index` map is derived: last index per name). -/
def parse (pj : PJ) (o : View) (acc : Array Elem) : (fuel : Nat) → Res (Array Elem)
  | 0 => .diverge
  | fuel + 1 => do
    let (o', r) ← o.nextElementBytes pj fuel
    match r with
    | none => .ok acc
    | some (name, it, ty) =>
      if ty == typeNone then .ok acc   -- `if t == TypeNone { break }`
      else parse pj o' (acc.push { name := name, type := ty, iter := it }) fuel

/-- `o.FindKey(key, dst)`: `none` = nil. -/
def findKey (pj : PJ) (key : Bytes) (tmp : Iter) : (fuel : Nat) → Res (Option (UInt8 × Iter))
  | 0 => .diverge
  | fuel + 1 => do
    let (tmp, typ) ← tmp.advance pj
    if typ != typeString ∨ tmp.off + 1 >= tmp.lim then .ok none else do
    let offset := tmp.cur
    let length ← rd pj.tape tmp.off
    if toInt64 length != (key.size : Int) then do
      let (tmp, t) ← tmp.advance pj
      if t == typeNone then .ok none else findKey pj key tmp fuel
    else
      match stringByteAt pj offset length with
      | .error _ => .ok none
      | .panic => .panic
      | .diverge => .diverge
      | .ok name =>
        if name != key then do
          let (tmp, _) ← tmp.advance pj
          findKey pj key tmp fuel
        else
          match tmp.advanceIter pj default with
          | .error _ => .ok none
          | .panic => .panic
          | .diverge => .diverge
          | .ok (_, d, ty) => .ok (some (ty, d))

/-- `o.ForEach(fn, onlyKeys)`: the callbacks made, in order. -/
def forEach (pj : PJ) (onlyKeys : List Bytes) (tmp : Iter) (n : Nat) (acc : Array (Bytes × Iter)) :
    (fuel : Nat) → Res (Array (Bytes × Iter))
  | 0 => .diverge
  | fuel + 1 => do
    let (tmp, typ) ← tmp.advance pj
    if typ != typeString ∨ tmp.off + 1 >= tmp.lim then
      if typ == typeNone then .ok acc else .error .generic
    else do
    let length ← rd pj.tape tmp.off
    let name ← stringByteAt pj tmp.cur length
    if onlyKeys.length > 0 ∧ !onlyKeys.contains name then do
      let (tmp, t) ← tmp.advance pj
      if t == typeNone then .ok acc else forEach pj onlyKeys tmp n acc fuel
    else do
      let (tmp, t) ← tmp.advance pj
      if t == typeNone then .ok acc else
      let acc := acc.push (name, tmp)
      let n := n + 1
      if n == onlyKeys.length then .ok acc else forEach pj onlyKeys tmp n acc fuel

/-- `o.DeleteElems(fn, onlyKeys)`. `pred k name` is the callback's answer for the k-th callback
    (`fn == nil` is `pred = fun _ _ => true`). Returns the new tape and the callbacks made.
    The NOP fill of `[startO, end)` (descending skip counts) writes `tmp.tape.Tape[i]` through the iterator's view:
    `Iter.nopFillV tmp.lim`, which panics at the first index `≥ lim` as Go does. -/
def deleteElems (pj : PJ) (pred : Nat → Bytes → Bool) (onlyKeys : List Bytes) (tmp : Iter) (n : Nat)
    (acc : Array (Bytes × Iter)) : (fuel : Nat) → Res (PJ × Array (Bytes × Iter))
  | 0 => .diverge
  | fuel + 1 => do
    let (tmp, typ) ← tmp.advance pj
    if typ != typeString ∨ tmp.off + 1 >= tmp.lim then
      if typ == typeNone then .ok (pj, acc) else .error .generic
    else do
    let startO := tmp.off - 1
    let length ← rd pj.tape tmp.off
    let name ← stringByteAt pj tmp.cur length
    if onlyKeys.length > 0 ∧ !onlyKeys.contains name then do
      let (tmp, t) ← tmp.advance pj
      if t == typeNone then .ok (pj, acc) else deleteElems pj pred onlyKeys tmp n acc fuel
    else do
      let (tmp, t) ← tmp.advance pj
      if t == typeNone then .ok (pj, acc) else do
      let del := pred n name
      let acc := acc.push (name, tmp)
      let pj ← (if del then do
          let e : Int := (tmp.off : Int) + tmp.addNext
          if e < 0 then .panic else do
          let tp ← Iter.nopFillV tmp.lim pj.tape startO e.toNat
          .ok { pj with tape := tp }
        else .ok pj)
      deleteElems pj pred onlyKeys tmp (n + 1) acc fuel

/-- `o.FindPath(dst, path...)`. Result: (type, iter). -/
def findPath (pj : PJ) (key : Bytes) (path : List Bytes) (tmp : Iter) : (fuel : Nat) → Res (UInt8 × Iter)
  | 0 => .diverge
  | fuel + 1 => do
    let (tmp, typ) ← tmp.advance pj
    if typ != typeString ∨ tmp.off + 1 >= tmp.lim then .error .pathNotFound else do
    let length ← rd pj.tape tmp.off
    if toInt64 length != (key.size : Int) then do
      let (tmp, t) ← tmp.advance pj
      if t == typeNone then .error .pathNotFound else findPath pj key path tmp fuel
    else do
      let name ← stringByteAt pj tmp.cur length
      if name != key then do
        let (tmp, _) ← tmp.advance pj
        findPath pj key path tmp fuel
      else
        match path with
        | [] => do
          let (_, d, ty) ← tmp.advanceIter pj default
          .ok (ty, d)
        | k :: rest => do
          -- `tmp.AdvanceIter(&tmp)`: i and dst are the same object, the restricted `dst` wins
          let (i2, d, ty) ← tmp.advanceIter pj tmp
          let tmp' := if ty == typeNone then i2 else d
          if ty != typeObject then .error .generic
          else findPath pj k rest tmp' fuel

def findPathTop (pj : PJ) (o : View) (path : List Bytes) : Res (UInt8 × Iter) :=
  match path with
  | [] => .error .pathNotFound
  | k :: rest => findPath pj k rest o.iter (fuelOf pj)

-- Array ----------------------------------------------------------------------------------------

/-- `a.ForEach(fn)`: iterators handed to the callback. -/
def arrForEach (pj : PJ) (i : Iter) (acc : Array Iter) : (fuel : Nat) → Res (Array Iter)
  | 0 => .diverge
  | fuel + 1 => do
    let (i, t) ← i.advance pj
    if t == typeNone then .ok acc else arrForEach pj i (acc.push i) fuel

/-- `a.DeleteElems(fn)`; `pred k` answers the k-th callback.  The fill writes `i.tape.Tape[off]` through the
    iterator's view (`Iter.nopFillV i.lim`). -/
def arrDeleteElems (pj : PJ) (pred : Nat → Bool) (i : Iter) (n : Nat) (acc : Array Iter) :
    (fuel : Nat) → Res (PJ × Array Iter)
  | 0 => .diverge
  | fuel + 1 => do
    let (i, t) ← i.advance pj
    if t == typeNone then .ok (pj, acc) else do
    let pj ← (if pred n then do
        let e : Int := (i.off : Int) + i.addNext
        if e < 0 ∨ i.off = 0 then .panic else do
        let tp ← Iter.nopFillV i.lim pj.tape (i.off - 1) e.toNat
        .ok { pj with tape := tp }
      else .ok pj)
    arrDeleteElems pj pred i (n + 1) (acc.push i) fuel

/-- `a.FirstType()` -/
def firstType (pj : PJ) (a : View) : Res UInt8 := a.iter.peekNext pj

inductive NumKind | asFloat | asInteger | asUint64 deriving DecidableEq

/-- `a.AsFloat()`, `a.AsInteger()`, `a.AsUint64()`: results as raw 64-bit words (float bits / two's
    complement / unsigned). These read the tape directly and refuse anything but numbers. -/
def asNum (pj : PJ) (kind : NumKind) (a : View) (acc : Array UInt64) : (fuel : Nat) → Res (Array UInt64)
  | 0 => .diverge
  | fuel + 1 => do
    -- `a.tape.Tape[a.off]` on the restricted view: out of range is a panic
    if a.off >= a.lim then .panic else do
    let w ← rd pj.tape a.off
    let tag := tagOf w
    let off := a.off + 1
    let getv : Res UInt64 := if a.lim <= off then .error .generic else rd pj.tape off
    if tag == tagFloat then do
      let v ← getv
      match kind with
      | .asFloat => asNum pj kind { a with off := off + 1 } (acc.push v) fuel
      | .asInteger =>
        if F64.geInt v (2^63) then .error .generic
        else if F64.ltInt v (-(2^63)) then .error .generic
        else asNum pj kind { a with off := off + 1 } (acc.push (ofInt64 (Iter.cvtFloatToInt64 v))) fuel
      | .asUint64 =>
        if F64.geInt v (2^64) then .error .generic
        else if F64.ltInt v 0 then .error .generic
        else asNum pj kind { a with off := off + 1 } (acc.push (UInt64.ofNat (Iter.cvtFloatToUint64 v))) fuel
    else if tag == tagInteger then do
      let v ← getv
      match kind with
      | .asFloat => asNum pj kind { a with off := off + 1 } (acc.push (F64.ofInt (toInt64 v))) fuel
      | .asInteger => asNum pj kind { a with off := off + 1 } (acc.push v) fuel
      | .asUint64 =>
        if toInt64 v < 0 then .error .generic
        else asNum pj kind { a with off := off + 1 } (acc.push v) fuel
    else if tag == tagUint then do
      let v ← getv
      match kind with
      | .asFloat => asNum pj kind { a with off := off + 1 } (acc.push (F64.ofNat v.toNat)) fuel
      | .asInteger =>
        if v.toNat > 2^63 - 1 then .error .generic
        else asNum pj kind { a with off := off + 1 } (acc.push v) fuel
      | .asUint64 => asNum pj kind { a with off := off + 1 } (acc.push v) fuel
    else if tag == tagArrayEnd then .ok acc
    else .error .generic

/-- `a.AsString()` -/
def asString (pj : PJ) (i : Iter) (acc : Array Bytes) : (fuel : Nat) → Res (Array Bytes)
  | 0 => .diverge
  | fuel + 1 => do
    let (i, elem, t) ← i.advanceIter pj default
    if t == typeNone then .ok acc
    else if t == typeString then do
      let s ← elem.stringBytes pj
      asString pj i (acc.push s) fuel
    else .error .generic

end View

namespace Iter

/-- `i.FindElement(dst, path...)` -/
def findElement (pj : PJ) (path : List Bytes) (cp : Iter) : (fuel : Nat) → Res (UInt8 × Iter)
  | 0 => .diverge
  | fuel + 1 =>
    if path.isEmpty then .error .pathNotFound
    else if cp.t == tagObjectStart then do
      let o ← cp.object
      View.findPathTop pj o path
    else if cp.t == tagRoot then do
      let (_, d) ← cp.root pj
      findElement pj path d fuel
    else if cp.t == tagEnd then do
      let (cp, tag) ← cp.advanceInto pj
      if tag == tagEnd then .error .pathNotFound else findElement pj path cp fuel
    else .error .generic

end Iter
end SJ
