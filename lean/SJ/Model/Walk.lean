import SJ.Model.Object
set_option linter.unusedVariables false
/-
`ParsedJson.ForEach` and an ordered read-back of a whole document through the public traversal API
(`ForEach`, `Object`, `NextElementBytes`, `Array`, `Iter`, `Advance`, typed accessors).  The Go
harness performs the same walk on the real package; objects keep source order and duplicates.
-/
namespace SJ
open Generated

/-- Ordered values (what a consumer iterating in order observes). -/
inductive OVal where
  | null | bool (b : Bool) | int (i : Int) | uint (n : Nat) | float (bits flags : UInt64) | str (s : Bytes)
  | arr (l : List OVal) | obj (l : List (Bytes × OVal))
  deriving Inhabited

mutual
/-- read the value an iterator is positioned on -/
def owalkValue (pj : PJ) (i : Iter) : (fuel : Nat) → Res OVal
  | 0 => .diverge
  | fuel + 1 =>
    let ty := i.type
    if ty == typeObject then do let o ← i.object; let ms ← owalkObj pj o [] fuel; .ok (.obj ms)
    else if ty == typeArray then do let a ← i.array; let es ← owalkArr pj a.iter [] fuel; .ok (.arr es)
    else if ty == typeString then do let s ← i.stringBytes pj; .ok (.str s)
    else if ty == typeInt then do let v ← i.int pj; .ok (.int v)
    else if ty == typeUint then do let v ← i.uint pj; .ok (.uint v)
    else if ty == typeFloat then do let (b, f) ← i.floatFlags pj; .ok (.float b f)
    else if ty == typeBool then do let b ← i.bool; .ok (.bool b)
    else if ty == typeNull then .ok .null
    else .error .generic

def owalkObj (pj : PJ) (o : View) (acc : List (Bytes × OVal)) : (fuel : Nat) → Res (List (Bytes × OVal))
  | 0 => .diverge
  | fuel + 1 => do
    let (o', r) ← o.nextElementBytes pj fuel
    match r with
    | none => .ok acc.reverse
    | some (name, it, ty) =>
      if ty == typeNone then .ok acc.reverse else do
      let v ← owalkValue pj it fuel
      owalkObj pj o' ((name, v) :: acc) fuel

def owalkArr (pj : PJ) (i : Iter) (acc : List OVal) : (fuel : Nat) → Res (List OVal)
  | 0 => .diverge
  | fuel + 1 => do
    let (i', ty) ← i.advance pj
    if ty == typeNone then .ok acc.reverse else do
    let v ← owalkValue pj i' fuel
    owalkArr pj i' (v :: acc) fuel
end

/-- `pj.ForEach(fn)`: the iterators handed to the callback (positioned on each root's content). -/
def pjForEach (pj : PJ) (i : Iter) (acc : Array Iter) : (fuel : Nat) → Res (Array Iter)
  | 0 => .diverge
  | fuel + 1 => do
    let (i', elem, t) ← i.advanceIter pj default
    if t != typeRoot then .ok acc else do
    let (elem', _) ← elem.advanceInto pj
    pjForEach pj i' (acc.push elem') fuel

/-- the whole document, root by root -/
def owalk (pj : PJ) : Res (List OVal) := do
  let roots ← pjForEach pj (Iter.ofPJ pj) #[] (fuelOf pj)
  roots.toList.mapM (fun it => owalkValue pj it (fuelOf pj))

end SJ
