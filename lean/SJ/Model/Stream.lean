import SJ.Basic
import SJ.Generated.Consts
set_option linter.unusedVariables false
/-
Model of the read loop of `ParseNDStream` (`simdjson_amd64.go`) over `bufio.Reader`: how a stream that
arrives in arbitrary fragments is cut into chunks.  The reader is a list of successive non-empty `Read`
results followed by a final error (`io.EOF` or a failure).  `bufio.Reader` is modelled by contract:
`Read` returns buffered bytes if there are any, else the next underlying read (the destination has the
buffer's size, so bufio reads straight into it); `ReadBytes('\n')` consumes up to and including the next LF,
filling from the underlying reader as needed.
-/
namespace SJ.Stream

inductive Fin where
  | eof
  | fail
  deriving DecidableEq, Repr

structure Rd where
  buffered : List UInt8        -- bytes bufio holds and has not handed out yet
  pending  : List (List UInt8) -- future results of the underlying Read
  deriving Repr

/-- split after the first LF: the line including its LF and what follows it, or everything and `none` -/
def splitLF : List UInt8 → List UInt8 × Option (List UInt8)
  | [] => ([], none)
  | c :: r => if c = 10 then ([10], some r) else ((c :: (splitLF r).1), (splitLF r).2)

/-- `ReadBytes('\n')`: bytes up to and including the first LF; `none` as third component = delimiter found,
    `some _` = the reader ended first (the bytes read so far are still returned, as bufio does). -/
def readLine (fin : Fin) : (fuel : Nat) → Rd → List UInt8 × Rd × Option Fin
  | 0, r => ([], r, some fin)
  | fuel + 1, r =>
    match splitLF r.buffered with
    | (line, some rest) => (line, { r with buffered := rest }, none)
    | (pre, none) =>
      match r.pending with
      | [] => (pre, { r with buffered := [] }, some fin)
      | p :: ps =>
        let res := readLine fin fuel { buffered := p, pending := ps }
        (pre ++ res.1, res.2.1, res.2.2)

/-- One iteration of the loop: the chunk handed to a parser (if any) and how the loop goes on. -/
def iteration (fin : Fin) (r : Rd) : Option (List UInt8) × Rd × Option Fin :=
  -- n, err := buf.Read(tmp)
  let (first, r1, err) : List UInt8 × Rd × Option Fin :=
    if r.buffered ≠ [] then (r.buffered, { r with buffered := [] }, none)
    else match r.pending with
      | [] => ([], r, some fin)
      | p :: ps => (p, { buffered := [], pending := ps }, none)
  match err with
  | some .fail => (none, r1, some .fail)          -- queueError; return
  | some .eof => ((if first = [] then none else some first), r1, some .eof)
  | none =>
    -- b, err2 := buf.ReadBytes('\n'); tmp = append(tmp, b...)
    let (l, r2, e2) := readLine fin (r1.pending.length + 1) r1
    match e2 with
    | some .fail => (none, r2, some .fail)        -- the partial chunk is dropped
    | e => (some (first ++ l), r2, e)

/-- The chunks of a whole stream, and how it ended. -/
def chunks (fin : Fin) : (fuel : Nat) → Rd → List (List UInt8) × Fin
  | 0, _ => ([], fin)
  | fuel + 1, r =>
    match iteration fin r with
    | (c, _, some f) => (c.toList, f)
    | (c, r', none) =>
      let (cs, f) := chunks fin fuel r'
      (c.toList ++ cs, f)

def run (reads : List (List UInt8)) (fin : Fin) : List (List UInt8) × Fin :=
  chunks fin (reads.length + 2) { buffered := [], pending := reads }

end SJ.Stream
