import SJ.Model.Tape
set_option linter.unusedVariables false
/-
Model of `Iter` (`parsed_json.go`): Advance, AdvanceInto, AdvanceIter, PeekNext(Tag), calcNext,
typed accessors, Root, Object/Array views. An `Iter` is a cursor; the tape, string buffer and
message it points at are the shared `PJ` passed alongside (Go slices alias the same memory, so
edits through one iterator are seen by every other one — that is what passing `pj` models).
`lim` is `len(i.tape.Tape)` of the (possibly restricted) view; it bounds the reads of the advancing loops and the
writes of the in-place edits (`Access.lean`: `wrV`).
-/
namespace SJ
open Generated

structure Iter where
  lim     : Nat
  off     : Nat
  addNext : Int
  cur     : UInt64
  t       : UInt8
  deriving Repr, Inhabited, DecidableEq

namespace Iter

/-- `pj.Iter()` -/
def ofPJ (pj : PJ) : Iter := { lim := pj.tape.size, off := 0, addNext := 0, cur := 0, t := tagEnd }

/-- `i.off += i.addNext`; a negative result makes the following index expression panic. -/
@[inline] def bump (i : Iter) : Res Nat :=
  let o := (i.off : Int) + i.addNext
  if o < 0 then .panic else .ok o.toNat

/-- `calcNext(into)` -/
def calcNext (i : Iter) (into : Bool) : Iter :=
  if inCase (caseOf swCalcNext 0) i.t then { i with addNext := 1 }
  else if inCase (caseOf swCalcNext 1) i.t then
    if into then { i with addNext := 0 } else { i with addNext := (i.cur.toNat : Int) - i.off }
  else { i with addNext := 0 }

def moveToEnd (i : Iter) : Iter := { i with off := i.lim, addNext := 0, t := tagEnd }

/-- Read within the view: index `< lim` is guaranteed by the callers' guards; the underlying
    array is at least as long as every view derived from it. -/
@[inline] def rdT (pj : PJ) (k : Nat) : Res UInt64 := rd pj.tape k

/-- The NOP-skipping loop of `Advance`, started at tape offset `off` (= `i.off` after `i.off += i.addNext`).
    Returns the cursor positioned after the first live word (`true`), or at the end (`false`).
    As in the Go code every iteration overwrites `i.t` and `i.cur` with the tag and payload of the word it
    has just read, so the registers are threaded through the recursion: an iterator that runs off the end of
    its view after skipping NOP words keeps the *last NOP's skip count* in `cur`. (The offset is the explicit
    argument; `i.off` itself is not read.) -/
def advanceLoop (pj : PJ) (i : Iter) (off : Nat) : Res (Iter × Bool) :=
  if h : off >= i.lim then .ok ({ i with off := off, addNext := 0, t := tagEnd }, false)
  else do
    let v ← rdT pj off
    let t := tagOf v
    let cur := payloadOf v
    if t == tagNop then
      if cur == 0 then .ok (moveToEnd { i with off := off + 1, cur := cur, t := t }, false)
      else advanceLoop pj { i with cur := cur, t := t } (off + 1 + (cur.toNat - 1))
    else .ok ({ i with off := off + 1, cur := cur, t := t }, true)
termination_by i.lim - off
decreasing_by simp_wf; omega

/-- `Advance()` returns the `Type`. -/
def advance (pj : PJ) (i : Iter) : Res (Iter × UInt8) := do
  let o ← i.bump
  let (i', live) ← advanceLoop pj i o
  if !live then .ok (i', typeNone)
  else
    let i'' := i'.calcNext false
    if i''.addNext < 0 then .ok (i''.moveToEnd, typeNone)
    else .ok (i'', tagToType i''.t)

/-- The loop of `AdvanceInto`; registers threaded as in `advanceLoop`. -/
def advanceIntoLoop (pj : PJ) (i : Iter) (off : Nat) : Res (Iter × Bool) :=
  if h : off >= i.lim then .ok ({ i with off := off, addNext := 0, t := tagEnd }, false)
  else do
    let v ← rdT pj off
    let t := tagOf v
    let cur := payloadOf v
    if t == tagNop then
      if hc : payloadOf v == 0 then .ok (moveToEnd { i with off := off, cur := cur, t := t }, false)
      else advanceIntoLoop pj { i with cur := cur, t := t } (off + (payloadOf v).toNat)
    else .ok ({ i with off := off + 1, cur := cur, t := t }, true)
termination_by i.lim - off
decreasing_by
  have := u64_ne_zero_toNat hc
  simp_wf; omega

/-- `AdvanceInto()` returns the `Tag`. -/
def advanceInto (pj : PJ) (i : Iter) : Res (Iter × UInt8) := do
  let o ← i.bump
  let (i', live) ← advanceIntoLoop pj i o
  if !live then .ok (i', tagEnd)
  else
    let i'' := i'.calcNext true
    if i''.addNext < 0 then .ok (i''.moveToEnd, tagEnd)
    else .ok (i'', i''.t)

/-- `Type()` -/
def type (i : Iter) : UInt8 :=
  if (i.off : Int) + i.addNext > i.lim then typeNone else tagToType i.t

/-- The loop of `AdvanceIter`; registers threaded as in `advanceLoop`. `false` = the end of the view was
    reached exactly (`TypeNone, nil`): the cursor then stands at `off = lim` with `addNext = 0`, `t = TagEnd` and
    the payload of the last NOP word it skipped (its old payload if it skipped none). -/
def advanceIterLoop (pj : PJ) (i : Iter) (off : Nat) : Res (Iter × Bool) :=
  if off = i.lim then .ok ({ i with off := off, addNext := 0, t := tagEnd }, false)
  else if _h : off > i.lim then .error .generic
  else do
    let v ← rdT pj off
    let t := tagOf v
    let cur := payloadOf v
    if t == tagNop then
      if cur == 0 then .error .generic
      else advanceIterLoop pj { i with cur := cur, t := t } (off + 1 + (cur.toNat - 1))
    else .ok ({ i with off := off + 1, cur := cur, t := t }, true)
termination_by i.lim - off
decreasing_by simp_wf; omega

/-- `AdvanceIter(dst)` with `dst ≠ i`: returns (i', dst, type). On the end of the scope `dst` is
    unchanged and the type is `TypeNone`. -/
def advanceIter (pj : PJ) (i dst : Iter) : Res (Iter × Iter × UInt8) := do
  let o ← i.bump
  let (i1, live) ← advanceIterLoop pj i o
  if !live then .ok (i1, dst, typeNone)
  else
    let i2 := i1.calcNext false
    if i2.addNext < 0 then .error .generic
    else
      let iEnd := i2.off + i2.addNext.toNat
      let typ := tagToType i2.t
      let d := i2.calcNext true
      if d.addNext < 0 then .error .generic
      else if iEnd > d.lim then .error .generic
      else .ok (i2, { d with lim := iEnd }, typ)

/-- Shared loop of `PeekNext` / `PeekNextTag`: the tag of the next live word, `tagEnd` at the end. -/
def peekLoop (pj : PJ) (lim off : Nat) : Res UInt8 :=
  if h : off >= lim then .ok tagEnd
  else do
    let v ← rdT pj off
    let t := tagOf v
    if t == tagNop then
      let skip := (payloadOf v).toNat
      if skip = 0 then .ok tagEnd else peekLoop pj lim (off + skip)
    else .ok t
termination_by lim - off
decreasing_by omega

def peekNextTag (pj : PJ) (i : Iter) : Res UInt8 := do
  let o ← i.bump
  peekLoop pj i.lim o

def peekNext (pj : PJ) (i : Iter) : Res UInt8 := do
  let t ← peekNextTag pj i
  .ok (tagToType t)

-- Typed accessors ---------------------------------------------------------------------------

/-- The value word following the current tag word, with the accessor's own bounds check. -/
@[inline] def valWord (pj : PJ) (i : Iter) : Res UInt64 :=
  if i.off >= i.lim then .error .generic else rdT pj i.off

def stringBytes (pj : PJ) (i : Iter) : Res Bytes :=
  if i.t != tagString then .error .generic
  else do
    let len ← valWord pj i
    stringByteAt pj i.cur len

def bool (i : Iter) : Res Bool :=
  if i.t == tagBoolTrue then .ok true
  else if i.t == tagBoolFalse then .ok false
  else .error .generic

end Iter
end SJ
