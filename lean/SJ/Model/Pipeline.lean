import SJ.Basic
import SJ.Generated.Consts
set_option linter.unusedVariables false
/-
The stage-1 / stage-2 hand-off (`findStructuralIndices`, `updateChar`, `parseMessage`) as a
transition system over atomic steps, parametric in the number of ring slots and the channel capacity.
Buffer contents are abstracted to *stamps*: slot `s` holds `stamp s = some k` when it was last filled
for the `k`-th buffer.
-/
namespace SJ.Pipeline

structure Cfg where
  slots : Nat
  cap   : Nat
  deriving Repr, DecidableEq

inductive Ev where
  | acquire            -- producer: `atomic.AddUint64(&buffersOffset, 1)`, select slot `offset % slots`, start filling
  | send               -- producer: `indexChans <- index` completes (needs room in the channel)
  | term               -- producer: terminator sent (needs room)
  | release            -- consumer: current buffer exhausted, about to receive (gives up the held buffer)
  | recv               -- consumer: `<-indexChans` completes with the next buffer
  | recvTerm           -- consumer: receives the terminator
  deriving Repr, DecidableEq

structure St where
  acquired : Nat := 0           -- buffers acquired by the producer so far
  sent     : Nat := 0           -- buffers sent
  released : Nat := 0           -- release steps of the consumer (one before every receive)
  recvd    : Nat := 0           -- buffers received
  termSent : Bool := false
  termRecv : Bool := false
  stamp    : Nat → Option Nat := fun _ => none
  /-- what the consumer found in the slot of buffer k when it received it -/
  seen     : List (Nat × Option Nat) := []

def queued (s : St) : Nat := s.sent - s.recvd + (if s.termSent ∧ !s.termRecv then 1 else 0)

/-- One atomic step; `none` when the step is not enabled. -/
def step (c : Cfg) (s : St) : Ev → Option St
  | .acquire =>
    if s.acquired = s.sent ∧ !s.termSent then
      let k := s.acquired
      some { s with acquired := k + 1, stamp := fun x => if x = k % c.slots then some k else s.stamp x }
    else none
  | .send =>
    if s.acquired = s.sent + 1 ∧ !s.termSent ∧ queued s < c.cap then some { s with sent := s.sent + 1 } else none
  | .term =>
    -- after the last buffer, or on a stage-1 error with the buffer being filled abandoned (`break`, then the terminator)
    if !s.termSent ∧ queued s < c.cap then some { s with termSent := true } else none
  | .release =>
    if s.released = s.recvd ∧ !s.termRecv then some { s with released := s.released + 1 } else none
  | .recv =>
    if s.released = s.recvd + 1 ∧ s.recvd < s.sent then
      some { s with recvd := s.recvd + 1, seen := (s.recvd, s.stamp (s.recvd % c.slots)) :: s.seen }
    else none
  | .recvTerm =>
    if s.released = s.recvd + 1 ∧ s.recvd = s.sent ∧ s.termSent ∧ !s.termRecv then some { s with termRecv := true } else none

def run (c : Cfg) : St → List Ev → Option St
  | s, [] => some s
  | s, e :: es => match step c s e with
    | some s' => run c s' es
    | none => none

/-- Every buffer the consumer may still read (the one it holds and the ones sent but not yet released)
    carries its own stamp. -/
def Safe (c : Cfg) (s : St) : Prop :=
  ∀ j, s.released ≤ j + 1 → j < s.sent → s.stamp (j % c.slots) = some j

/-- What a recorded execution must satisfy: `a` = slot acquired (logged after the atomic increment),
    `R` = consumer gives up its buffer (logged before the receive), `x` = stage 2 failed and only drains.  With `n` releases logged, buffers
    `≥ n-1` may still be read; acquiring buffer `k` is harmless iff `k + 1 - n < slots`. Returns the index of
    the first offending event. -/
def replayAR (slots : Nat) (evs : List Char) : Except Nat (Nat × Nat) :=
  let rec go (k n i : Nat) : List Char → Except Nat (Nat × Nat)
    | [] => .ok (k, n)
    | 'a' :: es => if k + 1 - n < slots then go (k + 1) n (i + 1) es else .error i
    | 'R' :: es => go k (n + 1) (i + 1) es
    | 'x' :: _ => .ok (k, n)      -- stage 2 gave up: it only drains from here on and reads no buffer contents
    | _ :: es => go k n (i + 1) es
  go 0 0 0 evs

def repoCfg : Cfg := { slots := Generated.cindexSlots, cap := Generated.cchanCap }

end SJ.Pipeline
