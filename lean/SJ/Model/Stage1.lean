import SJ.Basic
import SJ.Generated.Consts
import SJ.Generated.GoTables
import SJ.Generated.AsmTables
set_option linter.unusedVariables false
/-
Model of `bytes.TrimSpace` as used by `parseMessage`, and of stage 1 (`findStructuralIndices` and
the assembly kernels it drives) as a *scalar* scanner: one pass over the bytes with three bits of
state.  `C06` is what relates this to the bit-parallel block functions regenerated from the
assembly; the per-byte classification used here is computed from the assembly's own nibble tables.
-/
namespace SJ
open Generated

-- bytes.TrimSpace ---------------------------------------------------------------------------------

def asciiSpace (c : UInt8) : Bool := c == 9 || c == 10 || c == 11 || c == 12 || c == 13 || c == 32

/-- Length of a UTF-8 encoded Unicode White_Space rune at the start of `a[i:]` (0 if none).
    U+0085, U+00A0, U+1680, U+2000–U+200A, U+2028, U+2029, U+202F, U+205F, U+3000. -/
def uniSpaceAt (a : Bytes) (i : Nat) : Nat :=
  let b0 := a.getD i 0
  let b1 := a.getD (i+1) 0
  let b2 := a.getD (i+2) 0
  if i + 1 < a.size ∧ b0 == 0xC2 ∧ (b1 == 0x85 || b1 == 0xA0) then 2
  else if i + 2 < a.size ∧ (
      (b0 == 0xE1 && b1 == 0x9A && b2 == 0x80) ||
      (b0 == 0xE2 && b1 == 0x80 && ((0x80 ≤ b2 && b2 ≤ 0x8A) || b2 == 0xA8 || b2 == 0xA9 || b2 == 0xAF)) ||
      (b0 == 0xE2 && b1 == 0x81 && b2 == 0x9F) ||
      (b0 == 0xE3 && b1 == 0x80 && b2 == 0x80)) then 3
  else 0

def trimLeft (a : Bytes) (i : Nat) : Nat :=
  if h : i < a.size then
    if asciiSpace a[i] then trimLeft a (i + 1)
    else
      let k := uniSpaceAt a i
      if hk : k > 0 then trimLeft a (i + k) else i
  else i
termination_by a.size - i

/-- Largest `e ≤ stop` (≥ start) such that `a[e:stop]` is all white space. -/
def trimRight (a : Bytes) (start : Nat) (stop : Nat) : Nat :=
  if h : start < stop then
    if asciiSpace (a.getD (stop - 1) 0) then trimRight a start (stop - 1)
    else if stop ≥ start + 2 ∧ uniSpaceAt (a.extract 0 stop) (stop - 2) == 2 then trimRight a start (stop - 2)
    else if stop ≥ start + 3 ∧ uniSpaceAt (a.extract 0 stop) (stop - 3) == 3 then trimRight a start (stop - 3)
    else stop
  else stop
termination_by stop

def trimSpace (a : Bytes) : Bytes :=
  let s := trimLeft a 0
  let e := trimRight a s a.size
  a.extract s e

/-- RFC 8259 white space only (what the property statement trims). -/
def jsonWs (c : UInt8) : Bool := c == 32 || c == 9 || c == 10 || c == 13

-- Byte classification through the assembly's nibble tables ------------------------------------------

/-- `VPSHUFB` of the low-nibble table (offset 0x00), the high-nibble table (offset 0x80), and-ed. -/
def classByte (b : UInt8) : Nat :=
  let lo := if b ≥ 0x80 then 0 else aWhitespaceStructurals.getD (b &&& 0xf).toNat 0
  let hi := aWhitespaceStructurals.getD (0x80 + (b >>> 4).toNat) 0
  lo &&& hi

/-- structural class: `{ } [ ] : ,` -/
def isStructByte (b : UInt8) : Bool := (classByte b &&& aWhitespaceStructurals.getD 0xc0 0) != 0
/-- white-space class: space, tab, LF, CR -/
def isWsByte (b : UInt8) : Bool := (classByte b &&& aWhitespaceStructurals.getD 0x100 0) != 0
/-- control character under the quote mask: `(b xor 0x80) <s 0xa0` -/
def isCtrlByte (b : UInt8) : Bool :=
  let x := b ^^^ (aQuoteMask.getD 0x40 0).toUInt8
  let k := (aQuoteMask.getD 0x80 0).toUInt8
  -- signed byte comparison x <s k
  (x.toNat + 128) % 256 < (k.toNat + 128) % 256
def isQuoteByte (b : UInt8) : Bool := b.toNat == aQuoteMask.getD 0 0
def isBackslashByte (b : UInt8) : Bool := b.toNat == aOddBackslash.getD 0 0
def isNewlineByte (b : UInt8) : Bool := b.toNat == aNewlineByte

-- Scalar stage 1 -------------------------------------------------------------------------------------

structure S1State where
  bsOdd    : Bool := false   -- the run of backslashes ending just before this byte has odd length
  inQuote  : Bool := false   -- quote mask of the previous position
  prevPred : Bool := true    -- previous position was white space, a structural or a quote bit
  err      : Bool := false   -- control character under the quote mask seen
  deriving Repr, DecidableEq, Inhabited

/-- One byte of the scanner: new state and whether this position is emitted as a structural index. -/
def s1Step (nd : Bool) (s : S1State) (b : UInt8) : S1State × Bool :=
  let bs := isBackslashByte b
  let escaped := s.bsOdd && !bs                      -- "odd_ends" bit
  let qbit := isQuoteByte b && !escaped              -- quote_bits
  let mask := s.inQuote != qbit                      -- quote_mask (prefix xor including this bit)
  let ws := isWsByte b
  let s0 := isStructByte b && !mask
  let s1 := s0 || qbit
  let pred := s1 || ws
  let pseudo := s.prevPred && !ws && !mask
  let s2 := s1 || pseudo
  let fin := s2 && !(qbit && !mask)                  -- closing quotes removed
  let nl := nd && isNewlineByte b && !mask
  ({ bsOdd := if bs then !s.bsOdd else false,
     inQuote := mask,
     prevPred := pred,
     err := s.err || (isCtrlByte b && mask) },
   fin || nl)

/-- Scan the whole message: final state and the structural indices in order. -/
def s1Scan (nd : Bool) (msg : Bytes) : S1State × Array Nat := Id.run do
  let mut s : S1State := {}
  let mut out : Array Nat := #[]
  for h : i in [0:msg.size] do
    let (s', e) := s1Step nd s msg[i]
    s := s'
    if e then out := out.push i
  return (s, out)

/-- `jsonMarkup(b)` -/
def isMarkup (b : UInt8) : Bool := tJsonMarkup.getD b.toNat 0 != 0

/-- Outcome of `findStructuralIndices` on the (trimmed) message: `none` = it returns false. -/
def stage1 (nd : Bool) (msg : Bytes) : Option (Array Nat) :=
  let (s, idx) := s1Scan nd msg
  if msg.size == 0 ∨ idx.size == 0 then none
  else if s.err ∨ s.inQuote then none
  else
    let last := msg.getD (idx.back!) 0
    if last == 125 ∨ last == 93 then some idx else none

-- Index buffers (rounds) -------------------------------------------------------------------------------

/-- First array position at or after `k` whose index is `≥ upto` (indices sorted ascending). -/
def countBelow (idx : Array Nat) (k upto : Nat) : Nat :=
  if h : k < idx.size then
    if idx[k] < upto then countBelow idx (k + 1) upto else k
  else k
termination_by idx.size - k

/-- First call of a round: whole 64-byte blocks are processed until the buffer holds at least
    `indexSizeWithSafetyBuffer` entries or the whole blocks are used up. Returns the buffer, the next
    unassigned index position and the byte position reached. -/
def fillBlocks (idx : Array Nat) (fullEnd : Nat) : (fuel : Nat) → (cur : Array Nat) → (k p : Nat) → Array Nat × Nat × Nat
  | 0, cur, k, p => (cur, k, p)
  | fuel + 1, cur, k, p =>
    if p < fullEnd then
      let j := countBelow idx k (p + 64)
      let cur := cur ++ idx.extract k j
      if cur.size ≥ cindexSizeWithSafetyBuffer then (cur, j, p + 64)
      else fillBlocks idx fullEnd fuel cur j (p + 64)
    else (cur, k, p)

/-- One round per iteration: `base` start of the remaining message (multiple of 64), `k` next index not
    yet assigned to a buffer, `carry` the index stripped from the previous buffer. -/
def roundsGo (msg : Bytes) (idx : Array Nat) : (fuel : Nat) → (base k : Nat) → (carry : Option Nat) → List (Array Nat)
  | 0, _, _, _ => []
  | fuel + 1, base, k, carry =>
    let n := msg.size
    if base < n then
      let cur0 : Array Nat := match carry with | some c => #[c] | none => #[]
      let fullEnd := base + ((n - base) / 64) * 64
      let (cur1, k1, p1) := fillBlocks idx fullEnd (n / 64 + 1) cur0 k base
      -- tail call when at most 64 bytes remain
      let (cur2, k2, p2) :=
        if n - p1 ≤ 64 ∧ p1 < n then
          let j := countBelow idx k1 n
          (cur1 ++ idx.extract k1 j, j, n)
        else (cur1, k1, p1)
      if p2 == n then [cur2]
      else if cur2.size > 0 ∧ !isMarkup (msg.getD cur2.back! 0) then
        cur2.pop :: roundsGo msg idx fuel p2 k2 (some cur2.back!)
      else cur2 :: roundsGo msg idx fuel p2 k2 none
    else []

/-- The index buffers handed from stage 1 to stage 2, as lists of absolute positions, following the
    block loop of `findStructuralIndices`: a buffer is closed once it holds at least
    `indexSizeWithSafetyBuffer` entries after a whole 64-byte block; if at most 64 bytes then remain
    they are processed into the same buffer; a trailing non-markup index of a non-final buffer is
    stripped and re-issued as the first entry of the next one. -/
def rounds (msg : Bytes) (idx : Array Nat) : Array (Array Nat) := (roundsGo msg idx (msg.size + 2) 0 0 none).toArray

end SJ
