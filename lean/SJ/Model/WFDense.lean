import SJ.Model.WF
set_option linter.unusedVariables false
/-
Dense variant of the executable tape-format checker/decoder of SJ/Model/WF.lean.

The model's `skipNops` follows the chain of skip counts (`i → i + skip → …`) and never looks at the
words it jumps over.  The documented format (`SJ.Layout.Gap`) wants EVERY word of a gap to be a NOP
whose skip count is ≥ 1 and stays inside the gap (so that a walk may enter the gap anywhere).
`skipNopsD` checks exactly that; `decValueD … decodeTapeD, wfCheckD` are the model's functions with
`skipNops … (fuel)` replaced by `skipNopsD …` and nothing else changed (same fuel structure, same
`termination_by structural fuel`), so that this block can be pasted into SJ/Model/WF.lean.
The proofs (equivalence with the relational format `Layout.WF`) are in SJ/Proofs/DecodeSound.lean.
-/
namespace SJ
open Generated

/-- linear scan from `k` towards `e`: every word passed must be a NOP with skip ≥ 1; `m` is the
    furthest position any skip seen so far reaches.  Stops at the first word that is not a NOP (or
    at `e`) and succeeds there iff no skip overshoots that position. -/
def scanNops (tape : Array UInt64) (e : Nat) (k m : Nat) : (fuel : Nat) → Option Nat
  | 0 => none
  | fuel + 1 =>
    if k > e then none
    else if k == e then (if m ≤ k then some k else none)
    else
      let w := tape.getD k 0
      if tagOf w == tagNop then
        let s := (payloadOf w).toNat
        if s == 0 then none else scanNops tape e (k + 1) (max m (k + s)) fuel
      else if m ≤ k then some k else none

/-- first live position `q` at or after `i` with `q ≤ e` (`q = e` or the word at `q` is not a NOP),
    provided every `k ∈ [i, q)` is a NOP with `1 ≤ skip` and `k + skip ≤ q`; otherwise `none` -/
def skipNopsD (tape : Array UInt64) (i e : Nat) : Option Nat := scanNops tape e i i (e + 1 - i)

mutual
/-- decode the value whose first word is at `i`, within `[i, e)`; returns the value and the next position -/
def decValueD (pj : PJ) (i e : Nat) (fuel : Nat) : Option (OVal × Nat) :=
  match fuel with
  | 0 => none
  | fuel + 1 =>
    if i >= e then none else
    let w := pj.tape.getD i 0
    let t := tagOf w
    let pl := payloadOf w
    if t == tagNull then some (.null, i + 1)
    else if t == tagBoolTrue then some (.bool true, i + 1)
    else if t == tagBoolFalse then some (.bool false, i + 1)
    else if t == tagInteger then
      if i + 1 >= e then none else some (.int (toInt64 (pj.tape.getD (i+1) 0)), i + 2)
    else if t == tagUint then
      if i + 1 >= e then none else some (.uint (pj.tape.getD (i+1) 0).toNat, i + 2)
    else if t == tagFloat then
      if i + 1 >= e then none else some (.float (pj.tape.getD (i+1) 0) pl, i + 2)
    else if t == tagString then
      if i + 1 >= e then none else
      match stringByteAt pj pl (pj.tape.getD (i+1) 0) with
      | .ok s => some (.str s, i + 2)
      | _ => none
    else if t == tagObjectStart ∨ t == tagArrayStart then
      let c := pl.toNat
      if c ≤ i + 1 ∨ c > e then none else
      let cw := pj.tape.getD (c - 1) 0
      if tagOf cw != openToClose t ∨ (payloadOf cw).toNat != i then none else
      if t == tagObjectStart then
        match decMembersD pj (i + 1) (c - 1) [] fuel with
        | some ms => some (.obj ms, c)
        | none => none
      else
        match decElemsD pj (i + 1) (c - 1) [] fuel with
        | some es => some (.arr es, c)
        | none => none
    else none
termination_by structural fuel

def decElemsD (pj : PJ) (i e : Nat) (acc : List OVal) (fuel : Nat) : Option (List OVal) :=
  match fuel with
  | 0 => none
  | fuel + 1 =>
    match skipNopsD pj.tape i e with
    | none => none
    | some p =>
      if p == e then some acc.reverse else
      match decValueD pj p e fuel with
      | none => none
      | some (v, n) => decElemsD pj n e (v :: acc) fuel
termination_by structural fuel

def decMembersD (pj : PJ) (i e : Nat) (acc : List (Bytes × OVal)) (fuel : Nat) : Option (List (Bytes × OVal)) :=
  match fuel with
  | 0 => none
  | fuel + 1 =>
    match skipNopsD pj.tape i e with
    | none => none
    | some p =>
      if p == e then some acc.reverse else
      let w := pj.tape.getD p 0
      if tagOf w != tagString ∨ p + 1 >= e then none else
      match stringByteAt pj (payloadOf w) (pj.tape.getD (p+1) 0) with
      | .ok k =>
        match skipNopsD pj.tape (p + 2) e with
        | none => none
        | some q =>
          match decValueD pj q e fuel with
          | none => none
          | some (v, n) => decMembersD pj n e ((k, v) :: acc) fuel
      | _ => none
termination_by structural fuel
end

/-- the root pairs -/
def decRootsD (pj : PJ) (i : Nat) (acc : List OVal) : (fuel : Nat) → Option (List OVal)
  | 0 => none
  | fuel + 1 =>
    let n := pj.tape.size
    match skipNopsD pj.tape i n with
    | none => none
    | some p =>
      if p == n then some acc.reverse else
      let w := pj.tape.getD p 0
      if tagOf w != tagRoot then none else
      let e := (payloadOf w).toNat
      if e ≤ p + 1 ∨ e > n then none else
      let cw := pj.tape.getD (e - 1) 0
      if tagOf cw != tagRoot ∨ (payloadOf cw).toNat != p then none else
      match skipNopsD pj.tape (p + 1) (e - 1) with
      | none => none
      | some q =>
        if q == e - 1 then none else
        match decValueD pj q (e - 1) (n + 1) with
        | none => none
        | some (v, nx) =>
          match skipNopsD pj.tape nx (e - 1) with
          | some r => if r == e - 1 then decRootsD pj e (v :: acc) fuel else none
          | none => none

/-- the document a tape denotes, if it obeys the format -/
def decodeTapeD (pj : PJ) : Option (List OVal) := decRootsD pj 0 [] (pj.tape.size + 1)

def wfCheckD (pj : PJ) : Bool := (decodeTapeD pj).isSome

end SJ
