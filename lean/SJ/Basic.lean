/-
Basic vocabulary shared by Spec, Model and Driver (core Lean only).
-/
namespace SJ

abbrev Byte  := UInt8
abbrev Bytes := Array UInt8

/-- Error classes the API distinguishes (texts are never compared). -/
inductive Err where
  | generic
  | pathNotFound
  | eof
  deriving DecidableEq, Repr, Inhabited

/-- Outcome of a modelled Go function: a value, a returned `error`, or a run-time panic
    (index out of range, slice bounds, nil dereference). `panic` is a *distinguished* outcome
    so that "does not panic" is a theorem and not an artefact of totalisation. -/
inductive Res (α : Type) where
  | ok (a : α)
  | error (e : Err)
  | panic
  | diverge   -- fuel of a fuelled loop exhausted: the Go code would not have terminated
  deriving Repr, Inhabited

namespace Res
@[inline] def bind {α β} (x : Res α) (f : α → Res β) : Res β :=
  match x with
  | .ok a => f a
  | .error e => .error e
  | .panic => .panic
  | .diverge => .diverge

instance : Monad Res where
  pure := Res.ok
  bind := Res.bind

@[simp] theorem bind_ok {α β} (a : α) (f : α → Res β) : (Res.ok a >>= f) = f a := rfl
@[simp] theorem bind_error {α β} (e : Err) (f : α → Res β) : ((Res.error e : Res α) >>= f) = .error e := rfl
@[simp] theorem bind_panic {α β} (f : α → Res β) : ((Res.panic : Res α) >>= f) = .panic := rfl
@[simp] theorem bind_diverge {α β} (f : α → Res β) : ((Res.diverge : Res α) >>= f) = .diverge := rfl
@[simp] theorem pure_eq {α} (a : α) : (pure a : Res α) = .ok a := rfl

def isOk {α} : Res α → Bool
  | .ok _ => true
  | _ => false

def isPanic {α} : Res α → Bool
  | .panic => true
  | _ => false

/-- Neither a panic nor a non-terminating run. -/
def safe {α} : Res α → Bool
  | .ok _ => true
  | .error _ => true
  | _ => false

def err {α} : Res α := .error .generic
end Res

/-- Checked slice read: Go's `s[i]` panics when `i` is out of range. -/
@[inline] def rd {α} (a : Array α) (i : Nat) : Res α :=
  match a[i]? with
  | some v => .ok v
  | none => .panic

/-- Checked slice write: Go's `s[i] = v`. -/
@[inline] def wr {α} (a : Array α) (i : Nat) (v : α) : Res (Array α) :=
  if h : i < a.size then .ok (a.set i v h) else .panic

theorem u64_ne_zero_toNat {x : UInt64} (h : ¬ (x == 0) = true) : x.toNat ≠ 0 := by
  intro hz
  apply h
  have : x = 0 := UInt64.toNat_inj.mp (by simpa using hz)
  simp [this]

/-- Go's `int(x)` for a `uint64` value (two's complement reinterpretation). -/
def toInt64 (x : UInt64) : Int :=
  if x.toNat < 2^63 then (x.toNat : Int) else (x.toNat : Int) - 2^64

/-- Go's `uint64(x)` for an `int`/`int64`. -/
def ofInt64 (i : Int) : UInt64 := UInt64.ofNat (i % 2^64).toNat

end SJ
