-- This module serves as the root of the `SJ` library.
-- Import modules here that should be built as part of the library.
import SJ.Basic
